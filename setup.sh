#!/usr/bin/env bash
# setup_cmd: offline; pre-warms the Go build cache for the harness (hooks on) so that checks start fast.
set -u
cd "$(dirname "${BASH_SOURCE[0]}")"
mkdir -p evidence replays
./check warmup quick >/dev/null 2>&1 || true
echo "setup done"
