#!/usr/bin/env python3
"""tools/make_seed_prompts.py <root> <prop>...: creates a scratch worktree <root>/<prop> of /repo HEAD and the prompt
<root>/<prop>.prompt.txt for a sub-agent (property text from properties.jsonl, ideas already used from seeded/*/meta.json)."""
import json, os, sys, glob, subprocess
root = sys.argv[1]; os.makedirs(root, exist_ok=True)
props = {json.loads(l)['id']: json.loads(l) for l in open('/verif/properties.jsonl')}
tmpl = open('/verif/tools/seed_prompt.tmpl').read()
for p in sys.argv[2:]:
    d = props[p]
    text = "%s — %s\n\nStatement: %s\n\nQuantified over: %s\n\nWhy the existing tests cannot settle it: %s\n\nRelevant files: %s" % (
        p, d['title'], d['statement'], d['quantifier']['text'], d['why_tests_cant'], ', '.join(d['anchors']['files']))
    used = []
    for m in sorted(glob.glob('/verif/seeded/%s-*/meta.json' % p)):
        used.append('- ' + json.load(open(m))['change'][:260])
    usedtxt = ''
    if used:
        usedtxt = 'Changes like these were already produced by someone else; yours must use DIFFERENT code sites and mechanisms:\n' + '\n'.join(used) + '\n\n'
    wt = '%s/%s' % (root, p)
    subprocess.run(['git', '-C', '/repo', 'worktree', 'add', '--detach', wt, 'HEAD'], capture_output=True)
    open('%s/%s.prompt.txt' % (root, p), 'w').write(tmpl.replace('@WT@', wt).replace('@ROOT@', root).replace('@ID@', p).replace('@PROP@', text).replace('@USED@', usedtxt))
    print('prepared', p)
