#!/usr/bin/env python3
"""Debug helper: regenerate Go (or another language) output from a replay that carries schema/format/go_flags.
usage: replay_gen.py <replay.json> <destdir> [lang]   (needs a vh binary: ./check build /tmp/dbg)"""
import json, os, subprocess, sys, shutil
rp = json.load(open(sys.argv[1])); c = rp.get('case', rp)
dest = os.path.abspath(sys.argv[2]); lang = sys.argv[3] if len(sys.argv) > 3 else 'go'
shutil.rmtree(dest, ignore_errors=True); os.makedirs(dest + '/in/pk')
fmt = c['format']
ext = {'jsonschema': 'json', 'openapi': 'json', 'cue': 'cue'}[fmt]
src = dest + '/in/pk/pk.' + ext
open(src, 'w').write(c['schema'])
if fmt == 'cue':
    inp = "  - cue:\n      entrypoint: '%s/in/pk'\n" % dest
else:
    inp = "  - %s:\n      path: '%s'\n      package: pk\n" % (fmt, src)
flags = c.get('go_flags') or {}
cfg = ''.join("        %s: %s\n" % (k, json.dumps(v)) for k, v in flags.items()) if lang == 'go' else ''
if lang == 'java':
    cfg = "        package_path: gen.x\n"
y = "inputs:\n%soutput:\n  directory: '%s/out'\n  types: true\n  builders: %s\n  converters: %s\n  languages:\n    - %s:%s\n" % (
    inp, dest, 'true' if c.get('builders') else 'false', 'true' if c.get('builders') else 'false', lang, ("\n" + cfg) if cfg else " {}\n")
open(dest + '/pipe.yaml', 'w').write(y)
print(y)
sys.exit(subprocess.call(['/tmp/dbg/vh', 'gen', dest + '/pipe.yaml', dest + '/out']))
