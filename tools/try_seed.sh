#!/usr/bin/env bash
# usage: tools/try_seed.sh <patch.diff> <Cxx> [tier]   — applies a seeded fault to /repo, runs the check, reverts.
set -u
P="$1"; C="$2"; T="${3:-quick}"
cd /repo || exit 9
if ! git diff --quiet; then echo "/repo dirty, refusing"; exit 9; fi
git apply "$P" || { echo "patch does not apply"; exit 9; }
trap 'git -C /repo checkout -- . ' EXIT
cd /verif && ./check "$C" "$T" 2>&1 | grep -v "^  " | head -${LINES_MAX:-12}
echo "rc=${PIPESTATUS[0]}"
