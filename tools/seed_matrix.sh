#!/bin/bash
# tools/seed_matrix.sh [ids...] — applies every seeded change to /repo (never committed), runs the quick check of
# its property (plus extra checks given as id:Cxx), records exit code and violation keys, restores /repo.
# Result: /verif/seeded/MATRIX.tsv (id, check, exit, new violation keys)
cd /verif
IDS="$@"; [ -z "$IDS" ] && IDS=$(ls seeded | grep '^C')
OUT=${MATRIX_OUT:-/verif/seeded/MATRIX.tsv}
R=${MATRIX_REPO:-/repo}   # a scratch worktree of /repo may be given instead (then VERIF_REPO points the check at it)
[ -z "$1" ] && : > $OUT
for id in $IDS; do
  prop=${id%-*}
  if grep -q '"obsolete"' /verif/seeded/$id/meta.json 2>/dev/null; then echo -e "$id\t$prop quick\tobsolete\t(no longer property-breaking on the repaired tree, see meta.json)" >> $OUT; continue; fi
  [ -n "$(git -C $R status --porcelain)" ] && { echo "$R not clean"; exit 2; }
  git -C $R apply /verif/seeded/$id/patch.diff || { echo -e "$id\t$prop\tpatch-does-not-apply" >> $OUT; continue; }
  out=$(VERIF_REPO=$R ./check $prop quick 2>&1); rc=$?
  keys=$(echo "$out" | grep '^  key=' | sed 's/^  key=//' | sort -u | tr '\n' '|')
  ran="$prop quick"
  if [ $rc -eq 0 ]; then
    # a change may surface through another property's check (meta.json: "also_run": ["Cxx"])
    for other in $(python3 -c "import json,sys; print(' '.join(json.load(open('/verif/seeded/$id/meta.json')).get('also_run',[])))" 2>/dev/null); do
      out=$(VERIF_REPO=$R ./check $other quick 2>&1); rc2=$?
      if [ $rc2 -ne 0 ]; then rc=$rc2; ran="$prop quick: exit 0; $other quick"; keys=$(echo "$out" | grep '^  key=' | sed 's/^  key=//' | sort -u | tr '\n' '|'); break; fi
    done
  fi
  git -C $R checkout -- .
  echo -e "$id\t$ran\texit=$rc\t$keys" >> $OUT
done
cat $OUT
