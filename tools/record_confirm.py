#!/usr/bin/env python3
"""tools/record_confirm.py: writes the results of the last tools/confirm_seeds.sh run (/tmp/confirm/result.tsv) into the seeds' meta.json."""
import json, os
head = os.popen('git -C /repo rev-parse --short HEAD').read().strip()
for l in open('/tmp/confirm/result.tsv'):
    f = l.rstrip('\n').split('\t'); id = f[0]
    p = f'/verif/seeded/{id}/meta.json'
    if not os.path.exists(p) or len(f) < 5: continue
    m = json.load(open(p))
    m['confirmed'] = {"on_commit": head, "how": "tools/confirm_seeds.sh: scratch worktree of /repo HEAD; bash -e RUN.txt on the unchanged tree; git apply patch.diff; go build ./...; go test -vet=off -count=1 ./... (the repository's suite); bash -e RUN.txt again",
                      "result": dict(x.split('=') for x in f[1:]), "meaning": "clean_demo=0: demonstration passes on the unchanged tree; build=0, suite=0: the change compiles and the existing tests pass; seeded_demo=1: the demonstration fails with the change"}
    json.dump(m, open(p, 'w'), indent=1)
print('recorded')
