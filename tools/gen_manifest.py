#!/usr/bin/env python3
"""Regenerates MANIFEST.json from tools/manifest_checks.json (claimed checks) + properties.jsonl."""
import json, os
here = os.path.dirname(os.path.abspath(__file__)); root = os.path.dirname(here)
props = [json.loads(l) for l in open(os.path.join(root, 'properties.jsonl'))]
claimed = json.load(open(os.path.join(here, 'manifest_checks.json')))
hooks_commits = claimed.pop('_hook_commits')
na_reasons = claimed.pop('_not_applicable', {})
checks = []; na = []
for p in props:
    pid = p['id']
    if pid in claimed:
        c = claimed[pid]
        checks.append({
            "property_id": pid,
            "quick_cmd": "./check %s quick" % pid,
            "thorough_cmd": "./check %s thorough" % pid,
            "evidence_file": "/verif/evidence/%s.json" % pid,
            "replay_cmd_template": "./check %s quick --replay {path}" % pid,
            "engine": "vh",
            "level_claimed": {"category": c.get("category", "exploration"), "text": c["text"], "design_ref": "DESIGN.md §4." + pid},
            "level_note": c["note"],
            "technique": c["technique"],
        })
    else:
        na.append({"property_id": pid, "reason": na_reasons.get(pid, "monitor not built yet in this round; no claim is made")})
m = {
    "version": 1,
    "setup_cmd": "./setup.sh",
    "hooks": {
        "guard": "verif (Go build tag)",
        "enable": "go build -tags verif (the ./check script builds the harness inside the cog module through a Go overlay with -tags verif)",
        "baseline_off_cmd": "cd /repo && GOFLAGS=-mod=mod GOPROXY=off GOSUMDB=off GOTOOLCHAIN=local go test -json -vet=off -count=1 -timeout 25m ./...",
        "source_commits": hooks_commits,
        "add_only": True,
    },
    "engines": [{"name": "vh", "path": "/verif/harness/vh", "serves_properties": sorted(claimed.keys()),
                 "kind_free_text": "Go monitor program compiled inside the cog module (overlay) with hooks on; runtime monitors, reference models, differential re-execution, generated-code execution"}],
    "checks": checks,
    "notes": "Runtime monitoring only. Exit 0 = held on everything explored (KNOWN-FINDING lines possible), 1 = VIOLATION, 2 = INCONCLUSIVE. See DESIGN.md.",
    "not_applicable": na,
}
json.dump(m, open(os.path.join(root, 'MANIFEST.json'), 'w'), indent=1)
print("claimed:", len(checks), "not claimed:", len(na))
