#!/bin/bash
# tools/seed_matrix_par.sh <streams> [ids...] — the seed matrix over several scratch worktrees of /repo and copies of
# /verif side by side (a check writes its evidence and replays into its own copy, so streams do not collide);
# /repo itself is never touched. Result: $MATRIX_OUT (default /verif/seeded/MATRIX.tsv), rows in seed order.
K=${1:-4}; shift
IDS=("$@"); [ ${#IDS[@]} -eq 0 ] && IDS=($(ls /verif/seeded | grep '^C'))
OUT=${MATRIX_OUT:-/verif/seeded/MATRIX.tsv}
for k in $(seq 0 $((K-1))); do
  git -C /repo worktree remove --force /tmp/mrepo$k 2>/dev/null; rm -rf /tmp/mrepo$k /tmp/vmat$k
  git -C /repo worktree add --detach /tmp/mrepo$k HEAD >/dev/null 2>&1
  mkdir -p /tmp/vmat$k; rsync -a --exclude .git --exclude seeded /verif/ /tmp/vmat$k/
  sed -i "s#^cd /verif#cd /tmp/vmat$k#" /tmp/vmat$k/tools/seed_matrix.sh
  part=""; for i in $(seq $k $K $((${#IDS[@]}-1))); do part="$part ${IDS[$i]}"; done
  (cd /tmp/vmat$k && mkdir -p seeded && for id in $part; do ln -sfn /verif/seeded/$id seeded/$id; done; MATRIX_REPO=/tmp/mrepo$k MATRIX_OUT=/tmp/vmat$k/part.tsv VERIF_SEED=${VERIF_SEED:-1} tools/seed_matrix.sh $part > /tmp/vmat$k/part.out 2>&1) &
done
wait
: > $OUT.tmp
for k in $(seq 0 $((K-1))); do cat /tmp/vmat$k/part.tsv >> $OUT.tmp; git -C /repo worktree remove --force /tmp/mrepo$k; rm -rf /tmp/vmat$k; done
sort -k1,1 $OUT.tmp > $OUT; rm -f $OUT.tmp
git -C /repo worktree prune
grep -vc "exit=1" $OUT
