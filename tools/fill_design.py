#!/usr/bin/env python3
"""tools/fill_design.py <asbuilt-template.md>: (re)generates section 0 of DESIGN.md from the template, the fix commits
in /repo, known_findings.json and seeded/MATRIX.tsv. Section 0 sits between the title and '## 1. The system, as read'."""
import json, os, sys, collections, re
tmpl = open(sys.argv[1] if len(sys.argv) > 1 else '/verif/tools/asbuilt.tmpl.md').read()
k = json.load(open('/verif/known_findings.json'))['findings']
fixed = {}
for f in k:
    if f['status'] == 'fixed':
        for c in f['commit'].split('+'):
            fixed.setdefault(c, []).append(f['property'])
rows = ['| commit | found by | repair |', '|---|---|---|']
for l in os.popen('git -C /repo log --reverse --format="%h %s"').read().splitlines():
    h, msg = l.split(' ', 1)
    if msg.startswith('fix:'):
        rows.append('| %s | %s | %s |' % (h, ', '.join(sorted(set(fixed.get(h, ['?'])))), msg[4:].strip().replace('|', '\\|')))
known = [f for f in k if f['status'] == 'known']
by = collections.defaultdict(list)
for f in known:
    by[f['property']].append(f)
kt = ['| property | entries | examples (key) |', '|---|---|---|']
for p in sorted(by):
    ex = '; '.join('`%s`' % f['key'][:70] for f in by[p][:3])
    kt.append('| %s | %d | %s |' % (p, len(by[p]), ex))
mt = ['| seeded change | check run | exit | new violation keys (first two) |', '|---|---|---|---|']
mp = '/verif/seeded/MATRIX.tsv'
if os.path.exists(mp):
    last = {}
    for l in open(mp):
        f = l.rstrip('\n').split('\t')
        if len(f) >= 3:
            last[f[0]] = f
    for id in sorted(last):
        f = last[id]
        if len(f) < 3:
            continue
        keys = [x for x in (f[3] if len(f) > 3 else '').split('|') if x]
        mt.append('| %s | %s | %s | %s |' % (f[0], f[1], f[2].replace('exit=', ''), '; '.join('`%s`' % x[:80] for x in keys[:2]) + (' (+%d)' % (len(keys) - 2) if len(keys) > 2 else '')))
body = tmpl.replace('@FIXES@', '\n'.join(rows)).replace('@NKNOWN@', str(len(known))).replace('@KNOWNTABLE@', '\n'.join(kt)).replace('@MATRIX@', '\n'.join(mt))
d = open('/verif/DESIGN.md').read()
title = '# Runtime monitoring for grafana/cog — design\n\n'
rest = d[d.index('## 1. The system, as read'):]
open('/verif/DESIGN.md', 'w').write(title + body.rstrip() + '\n\n---------------------------------------------------------------------------------------\n\n' + rest)
print('DESIGN.md section 0 regenerated:', len(rows) - 2, 'fixes,', len(known), 'known,', len(mt) - 2, 'matrix rows')
