#!/bin/bash
# tools/confirm_seeds.sh [seed-root=/verif/seeded] [ids...] — confirms every seeded change in a scratch worktree of /repo's HEAD:
#   demo passes on the unchanged tree; patch applies; tree builds; the repository's suite passes; demo fails.
# Output: one line per seed in /tmp/confirm/result.tsv. Worktree removed at the end.
export GOFLAGS=-mod=mod GOPROXY=off GOSUMDB=off GOTOOLCHAIN=local
ROOT=${1:-/verif/seeded}; shift
C=${CONFIRM_DIR:-/tmp/confirm}   # several runs may go side by side, each with its own directory
WT=$C/wt
OUT=$C/result.tsv
mkdir -p $C; : > $OUT
git -C /repo worktree remove --force $WT 2>/dev/null; rm -rf $WT
git -C /repo worktree add --detach $WT HEAD >/dev/null 2>&1 || { echo "cannot create worktree"; exit 2; }
IDS="$@"; [ -z "$IDS" ] && IDS=$(ls $ROOT | grep "^C[0-9][0-9]-")
for id in $IDS; do
  prop=${id%-*}; s=${id#*-}
  src=$ROOT/$id
  [ -f $src/patch.diff ] || { echo -e "$id\tno-patch" >> $OUT; continue; }
  (cd $WT && git checkout -q -- . && git clean -fdq)
  rm -rf $WT/SEED; mkdir -p $WT/SEED/$s; cp -r $src/. $WT/SEED/$s/
  [ -f $src/seed_root_go.mod ] && cp $src/seed_root_go.mod $WT/SEED/go.mod
  run="$src/RUN.txt"
  # demo on the unchanged tree
  (cd $WT && bash -e $run > $C/$id.clean.log 2>&1); clean=$?
  (cd $WT && git checkout -q -- . && git clean -fdq -e SEED)
  if ! (cd $WT && git apply SEED/$s/patch.diff 2>$C/$id.apply.log); then echo -e "$id\tdoes-not-apply\tclean_demo=$clean" >> $OUT; continue; fi
  (cd $WT && go build ./... > $C/$id.build.log 2>&1); build=$?
  (cd $WT && go test -vet=off -count=1 ./... > $C/$id.suite.log 2>&1); suite=$?
  (cd $WT && bash -e $run > $C/$id.seeded.log 2>&1); seeded=$?
  echo -e "$id\tclean_demo=$clean\tbuild=$build\tsuite=$suite\tseeded_demo=$seeded" >> $OUT
done
(cd $WT && git checkout -q -- . && git clean -fdq)
git -C /repo worktree remove --force $WT
cat $OUT
