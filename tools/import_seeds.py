#!/usr/bin/env python3
"""tools/import_seeds.py <root> <prop> <letter-for-A> <letter-for-B>: copies <root>/<prop>/SEED/{A,B} produced by a
sub-agent into /verif/seeded/<prop>-<letter>/ with a meta.json (confirmation is added by confirm_seeds.sh + record_confirm)."""
import os, shutil, json, re, sys
root, prop, la, lb = sys.argv[1:5]
for s, letter in (('A', la), ('B', lb)):
    src = f'{root}/{prop}/SEED/{s}'
    if not os.path.isfile(src + '/patch.diff'):
        print('missing', src); continue
    id = f'{prop}-{letter}'
    d = f'/verif/seeded/{id}'
    shutil.rmtree(d, ignore_errors=True); os.makedirs(d)
    for f in os.listdir(src):
        p = os.path.join(src, f)
        if os.path.isdir(p): shutil.copytree(p, os.path.join(d, f))
        else: shutil.copy(p, d)
    # RUN.txt refers to SEED/<s>/…: rewrite to the new letter
    for f in os.listdir(d):
        p = os.path.join(d, f)
        if os.path.isfile(p) and f.endswith(('.txt', '.sh')):
            t = open(p).read().replace(f'SEED/{s}/', f'SEED/{letter}/').replace(f'SEED/{s} ', f'SEED/{letter} ')
            open(p, 'w').write(t)
    # RUN.txt must be runnable with `bash -e`: prose lines become comments
    runp = d + '/RUN.txt'
    if os.path.exists(runp):
        cmds = ('export ', 'cp ', 'go ', 'rm ', 'git ', 'mkdir ', 'python3 ', 'bash ', 'cd ', 'javac ', 'java ', 'sh ', './', 'test ', 'mv ', 'cat ', 'GOFLAGS', 'for ', 'done', 'if ', 'fi', 'then', 'else', 'status=', 'exit ', 'SEED_TMP=', 'TMPDIR=')
        out = []
        for line in open(runp).read().split('\n'):
            st = line.strip()
            if st.startswith(('git apply', 'git checkout', 'git stash')):
                out.append('# (done by the caller) ' + st)
            elif st == '' or st.startswith('#') or st.startswith(cmds) and not st.endswith(':'):
                out.append(line.strip() if st.startswith(cmds) else line)
            else:
                out.append('# ' + line)
        open(runp, 'w').write('\n'.join(out))
    if os.path.isfile(f'{root}/{prop}/SEED/go.mod'):
        shutil.copy(f'{root}/{prop}/SEED/go.mod', d + '/seed_root_go.mod')  # keeps `go test ./...` out of SEED/
    notes = open(d + '/NOTES.txt').read() if os.path.exists(d + '/NOTES.txt') else ''
    paras = [p.strip() for p in re.split(r'\n(?=[A-Z][A-Za-z ]+:)', notes) if p.strip()]
    change = next((p for p in paras if p.lower().startswith('change')), paras[0] if paras else '')
    needs = next((p for p in paras if re.match(r'(condition|needs)', p, re.I)), '')
    why = next((p for p in paras if re.match(r'(why|effect)', p, re.I)), '')
    meta = {"id": id, "property": prop, "batch": 2, "change": ' '.join(change.split()), "why_it_breaks_the_property": ' '.join(why.split()),
            "needs_to_manifest": ' '.join(needs.split()), "patch": "patch.diff",
            "demonstration": "RUN.txt (run from the root of a worktree that contains this directory as SEED/%s)" % letter, "patch_adapted_to_current_tree": False}
    json.dump(meta, open(d + '/meta.json', 'w'), indent=1)
    print('imported', id)
