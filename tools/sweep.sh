#!/bin/bash
# tools/sweep.sh <tier> <seed> [ids...] — runs checks one after the other, prints one line per check.
cd /verif
tier=${1:-quick}; seed=${2:-1}; shift; shift
IDS="$@"; [ -z "$IDS" ] && IDS="C01 C02 C03 C04 C05 C06 C07 C08 C09 C10 C11 C12 C13 C14 C15 C16 C17 C18 C19 C20"
for id in $IDS; do
  s=$(date +%s)
  out=$(VERIF_SEED=$seed ./check $id $tier 2>&1); rc=$?
  e=$(( $(date +%s) - s ))
  echo "$id $tier seed=$seed exit=$rc ${e}s $(echo "$out" | grep -c '^VIOLATION') violations $(echo "$out" | grep -c '^KNOWN-FINDING') known $(echo "$out" | grep -c 'harness-build') buildfail"
  [ $rc -ne 0 ] && echo "$out" | grep -A2 '^VIOLATION\|^INCONCLUSIVE' | head -12 | cut -c1-300
done
