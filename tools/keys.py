#!/usr/bin/env python3
import json,glob,sys
prop=sys.argv[1]
pat=sys.argv[2] if len(sys.argv)>2 else ''
rows=[]
for f in sorted(glob.glob('/verif/replays/%s/*.json'%prop)):
    d=json.load(open(f))
    if pat in d['key']:
        rows.append((d['key'],d['description'],f))
rows.sort()
for k,desc,f in rows:
    print(k)
    if len(sys.argv)>3:
        print('    ',desc[:int(sys.argv[3])].replace('\n','\n     '))
