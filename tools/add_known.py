#!/usr/bin/env python3
"""tools/add_known.py <Cxx> [substring]: append known-finding entries for the violation keys currently in replays/<Cxx>
(after manual triage!). The `what` text is derived from the violation description."""
import json,glob,sys,re,os
if os.popen('git -C /repo status --porcelain').read().strip():
    sys.exit("refusing: /repo has uncommitted changes (a seeded patch applied?) — replays may not come from the unchanged tree")
prop=sys.argv[1]; pat=sys.argv[2] if len(sys.argv)>2 else ''
p='/verif/known_findings.json'
k=json.load(open(p))
have={(f['property'],f['key']) for f in k['findings']}
n=0
for f in sorted(glob.glob('/verif/replays/%s/*.json'%prop)):
    d=json.load(open(f))
    if pat not in d['key'] or (prop,d['key']) in have: continue
    desc=d['description']
    first=desc.split('\n')[0]
    first=re.sub(r'case c\d+ ','',first)
    inp=''
    if 'input:' in desc:
        inp=' '.join(desc.split('input:',1)[1].split())[:220]
    what=first[:260]+(' — e.g. input: '+inp if inp else '')
    k['findings'].append({"property":prop,"key":d['key'],"status":"known","what":what})
    have.add((prop,d['key'])); n+=1
    print('  +', d['key'])
json.dump(k,open(p,'w'),indent=1)
print("added",n)
