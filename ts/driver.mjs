// Driver for generated TypeScript. Needs Node >= 22.13 (module.stripTypeScriptTypes, mode "transform") and
// --experimental-vm-modules. For every tree given on stdin (one JSON line: {"id":…, "root":…}) it
//   1. transforms every .ts file to JavaScript (syntax errors of the TypeScript surface show here),
//   2. parses it as an ES module (duplicate declarations, invalid identifiers, … show here),
//   3. links the modules of the tree with each other (unresolved imports / missing exports show here),
//   4. evaluates them and calls every exported function named default* (runtime errors show here),
// and prints one JSON line per tree: {"id", "files":[{file, stage, error}], "defaults":{"<file>#<fn>": value|{"__error":…}}}.
import { stripTypeScriptTypes } from 'node:module';
import vm from 'node:vm';
import fs from 'node:fs';
import path from 'node:path';
import readline from 'node:readline';

function listTs(dir, out = []) {
  for (const e of fs.readdirSync(dir, { withFileTypes: true })) {
    const p = path.join(dir, e.name);
    if (e.isDirectory()) listTs(p, out);
    else if (e.name.endsWith('.ts')) out.push(p);
  }
  return out.sort();
}

function resolveImport(fromFile, spec, modules) {
  if (!spec.startsWith('.')) return null;
  const base = path.resolve(path.dirname(fromFile), spec);
  for (const cand of [base + '.ts', path.join(base, 'index.ts'), base]) {
    if (modules.has(cand)) return cand;
  }
  return undefined;
}

async function checkTree(req) {
  const res = { id: req.id, files: [], defaults: {} };
  const files = listTs(req.root);
  const modules = new Map();
  const context = vm.createContext({ console });
  for (const f of files) {
    const rel = path.relative(req.root, f);
    let js;
    try {
      js = stripTypeScriptTypes(fs.readFileSync(f, 'utf8'), { mode: 'transform' });
    } catch (e) {
      res.files.push({ file: rel, stage: 'typescript-syntax', error: String(e.message).split('\n')[0].slice(0, 300) });
      continue;
    }
    try {
      modules.set(f, new vm.SourceTextModule(js, { identifier: f, context }));
    } catch (e) {
      res.files.push({ file: rel, stage: 'module-parse', error: String(e.message).split('\n')[0].slice(0, 300) });
    }
  }
  if (res.files.length > 0) {
    // files that do not even parse: linking the rest of the tree would only report the consequences
    res.partial = true;
    return res;
  }
  const external = new Map();
  const linker = (spec, ref) => {
    const target = resolveImport(ref.identifier, spec, modules);
    if (target === null) {
      // a package import: not available offline — an empty synthetic module keeps linking going
      if (!external.has(spec)) external.set(spec, new vm.SyntheticModule([], () => {}, { identifier: spec, context }));
      return external.get(spec);
    }
    if (target === undefined) throw new Error(`cannot resolve import '${spec}'`);
    return modules.get(target);
  };
  for (const [f, m] of modules) {
    const rel = path.relative(req.root, f);
    try {
      if (m.status === 'unlinked') await m.link(linker);
    } catch (e) {
      res.files.push({ file: rel, stage: 'link', error: String(e.message).split('\n')[0].slice(0, 300) });
    }
  }
  for (const [f, m] of modules) {
    const rel = path.relative(req.root, f);
    if (m.status !== 'linked' && m.status !== 'evaluated') continue;
    try {
      await m.evaluate();
    } catch (e) {
      res.files.push({ file: rel, stage: 'evaluate', error: String(e && e.message).split('\n')[0].slice(0, 300) });
      continue;
    }
    for (const name of Object.keys(m.namespace)) {
      const v = m.namespace[name];
      if (typeof v === 'function' && /^default[A-Z_]/.test(name) && v.length === 0) {
        try {
          const out = v();
          res.defaults[rel + '#' + name] = JSON.parse(JSON.stringify(out === undefined ? null : out));
        } catch (e) {
          res.defaults[rel + '#' + name] = { __error: String(e && e.message).slice(0, 300) };
        }
      }
    }
  }
  return res;
}

const rl = readline.createInterface({ input: process.stdin });
for await (const line of rl) {
  if (!line.trim()) continue;
  let req;
  try { req = JSON.parse(line); } catch { continue; }
  let out;
  try { out = await checkTree(req); } catch (e) { out = { id: req.id, fatal: String(e && e.message).slice(0, 300) }; }
  process.stdout.write(JSON.stringify(out) + '\n');
}
