#!/usr/bin/env python3
"""Driver for generated Python code. Speaks the same JSONL protocol as the Go driver:
   {"id":…, "op":"roundtrip|default", "type":"<sid>.<Object>", "doc":…} on stdin → one JSON object per line on stdout."""
import importlib
import json
import sys
import traceback

root = sys.argv[1]
sys.path.insert(0, root)
sys.setrecursionlimit(4000)

_mods = {}
_encoders = {}


def resolve(type_name):
    sid, obj = type_name.split(".", 1)
    pkg = "pk"
    key = sid
    if "/" in sid:  # "<sid>/<package>.<Object>": a package other than the default one
        sid, pkg = sid.split("/", 1)
    if key not in _mods:
        _mods[key] = importlib.import_module(sid + ".models." + pkg)
        _encoders[key] = importlib.import_module(sid + ".cog.encoder").JSONEncoder
    return getattr(_mods[key], obj), _encoders[key]


def norm(name):
    return "".join(c for c in name.lower() if c.isalnum())


def lookup(mod, name):
    if hasattr(mod, name):
        return getattr(mod, name)
    for attr in dir(mod):
        if norm(attr) == norm(name):
            return getattr(mod, attr)
    raise AttributeError("no %s in %s" % (name, mod.__name__))


class FailingNested(Exception):
    pass


class Stub:
    """Stands for a nested builder: build() returns a fixed object or fails."""

    def __init__(self, value=None, fail=False):
        self.value, self.fail = value, fail

    def build(self):
        if self.fail:
            raise FailingNested("boom from nested builder")
        return self.value


def shape(sid, sh):
    """Turns an argument shape (computed by the harness from the builder IR) into a Python value."""
    k = sh["k"]
    models = _mods[sid]
    if k == "raw":
        return sh.get("v")
    if k == "obj":
        return lookup(models, sh["t"]).from_json(sh["v"])
    if k == "enum":
        return lookup(models, sh["t"])(sh["v"])
    if k == "builder":
        return Stub(lookup(models, sh["t"]).from_json(sh["v"]))
    if k == "fail":
        return Stub(fail=True)
    if k == "list":
        return [shape(sid, x) for x in sh["items"]]
    if k == "map":
        return {key: shape(sid, x) for key, x in sh["items"].items()}
    raise ValueError("unknown shape " + k)


_bmods = {}


def build_op(req, resp):
    sid, bname = req["type"].split(".", 1)
    if sid not in _mods:
        _mods[sid] = importlib.import_module(sid + ".models.pk")
        _encoders[sid] = importlib.import_module(sid + ".cog.encoder").JSONEncoder
    if sid not in _bmods:
        _bmods[sid] = importlib.import_module(sid + ".builders.pk")
    cls = None
    for attr in dir(_bmods[sid]):
        obj = getattr(_bmods[sid], attr)
        if isinstance(obj, type) and norm(attr) == bname and obj.__module__ == _bmods[sid].__name__:
            cls = obj
    if cls is None:
        resp["unknown"] = True
        return
    try:
        ctor_args = [shape(sid, a) for a in req.get("py_ctor") or []]
    except BaseException as exc:  # noqa
        resp["harness_err"] = "constructor args: %s: %s" % (type(exc).__name__, str(exc)[:300])
        return
    try:
        builder = cls(*ctor_args)
    except BaseException as exc:  # noqa
        resp["call_err"] = "%s: %s" % (type(exc).__name__, str(exc)[:300])
        resp["call_err_at"] = -1
        return
    for i, call in enumerate(req.get("calls") or []):
        method = None
        for attr in dir(builder):
            # reserved words are escaped by cog with a `_val` suffix (from → from_val)
            if not attr.startswith("_") and norm(attr) in (norm(call["option"]), norm(call["option"]) + "val"):
                method = getattr(builder, attr)
        if method is None:
            resp["harness_err"] = "no method for option " + call["option"]
            return
        try:
            args = [shape(sid, a) for a in call.get("py_args") or []]
        except BaseException as exc:  # noqa
            resp["harness_err"] = "option %s args: %s: %s" % (call["option"], type(exc).__name__, str(exc)[:300])
            return
        try:
            method(*args)
        except BaseException as exc:  # noqa
            resp["call_err"] = "%s: %s" % (type(exc).__name__, str(exc)[:300])
            resp["call_err_at"] = i
            break
    resp["internal"] = json.loads(json.dumps(builder._internal, cls=_encoders[sid]))
    if "call_err" not in resp:
        resp["out"] = json.loads(json.dumps(builder.build(), cls=_encoders[sid]))


def handle(req):
    resp = {"id": req["id"]}
    stage = "import"
    try:
        if req["op"] == "build":
            stage = "build"
            build_op(req, resp)
            return resp
        cls, encoder = resolve(req["type"])
        if req["op"] == "roundtrip":
            stage = "from_json"
            value = cls.from_json(req["doc"])
            stage = "to_json"
            resp["out"] = json.loads(json.dumps(value, cls=encoder))
        elif req["op"] == "default":
            stage = "constructor"
            value = cls()
            stage = "to_json"
            resp["out"] = json.loads(json.dumps(value, cls=encoder))
        else:
            resp["unknown"] = True
    except BaseException as exc:  # noqa
        resp["panic"] = "%s: %s: %s" % (stage, type(exc).__name__, str(exc)[:300])
        if stage == "import":
            resp["import_err"] = traceback.format_exc()[-1500:]
    return resp


for line in sys.stdin:
    line = line.strip()
    if not line:
        continue
    try:
        req = json.loads(line)
    except ValueError:
        continue
    sys.stdout.write(json.dumps(handle(req)) + "\n")
    sys.stdout.flush()
