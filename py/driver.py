#!/usr/bin/env python3
"""Driver for generated Python code. Speaks the same JSONL protocol as the Go driver:
   {"id":…, "op":"roundtrip|default", "type":"<sid>.<Object>", "doc":…} on stdin → one JSON object per line on stdout."""
import importlib
import json
import sys
import traceback

root = sys.argv[1]
sys.path.insert(0, root)
sys.setrecursionlimit(4000)

_mods = {}
_encoders = {}


def resolve(type_name):
    sid, obj = type_name.split(".", 1)
    if sid not in _mods:
        _mods[sid] = importlib.import_module(sid + ".models.pk")
        _encoders[sid] = importlib.import_module(sid + ".cog.encoder").JSONEncoder
    return getattr(_mods[sid], obj), _encoders[sid]


def handle(req):
    resp = {"id": req["id"]}
    stage = "import"
    try:
        cls, encoder = resolve(req["type"])
        if req["op"] == "roundtrip":
            stage = "from_json"
            value = cls.from_json(req["doc"])
            stage = "to_json"
            resp["out"] = json.loads(json.dumps(value, cls=encoder))
        elif req["op"] == "default":
            stage = "constructor"
            value = cls()
            stage = "to_json"
            resp["out"] = json.loads(json.dumps(value, cls=encoder))
        else:
            resp["unknown"] = True
    except BaseException as exc:  # noqa
        resp["panic"] = "%s: %s: %s" % (stage, type(exc).__name__, str(exc)[:300])
        if stage == "import":
            resp["import_err"] = traceback.format_exc()[-1500:]
    return resp


for line in sys.stdin:
    line = line.strip()
    if not line:
        continue
    try:
        req = json.loads(line)
    except ValueError:
        continue
    sys.stdout.write(json.dumps(handle(req)) + "\n")
    sys.stdout.flush()
