package main

import (
	"encoding/json"
	"fmt"
	"os"
	"regexp"
	"sort"
	"strings"

	"github.com/grafana/cog/internal/ast"
)

// C14 — Go converters invert builders: the code they print rebuilds the original object.
//
// Two executed stages. Stage 1: the generated `<Builder>Converter(input)` functions are compiled into
// the driver and called on values decoded from accepted documents; the printed Go expression and the
// value's own JSON are logged. Stage 2: every printed expression is compiled (one file per case, so
// compile errors are attributable) against the same generated package, executed with `.Build()`, and the
// built object's JSON logged. Offline checker: the built object equals the input wherever the input
// holds a value; where the input holds nothing (nil pointer, empty omitted collection) the built object
// may hold the builder's default. Top-level option calls of the expression are counted: an option that is
// not an append/index option appears at most once.

func init() { register("C14", checkC14) }

// splitTopLevel splits a Go expression on sep at nesting depth 0, outside string literals.
func splitTopLevel(expr, sep string) []string {
	var parts []string
	depth := 0
	start := 0
	for i := 0; i < len(expr); i++ {
		switch expr[i] {
		case '(', '[', '{':
			depth++
		case ')', ']', '}':
			depth--
		case '"':
			for i++; i < len(expr) && expr[i] != '"'; i++ {
				if expr[i] == '\\' {
					i++
				}
			}
		case '`':
			for i++; i < len(expr) && expr[i] != '`'; i++ {
			}
		case '\'':
			for i++; i < len(expr) && expr[i] != '\''; i++ {
				if expr[i] == '\\' {
					i++
				}
			}
		default:
			if depth == 0 && strings.HasPrefix(expr[i:], sep) {
				parts = append(parts, expr[start:i])
				start = i + len(sep)
				i += len(sep) - 1
			}
		}
	}
	return append(parts, expr[start:])
}

type c14Cmp struct {
	s        *amSchema
	defaults map[string]any             // object name → JSON of the object held by a builder without options
	covered  map[string]map[string]bool // object name → members some option or constructor argument can write
	byChoice map[string]map[string]bool // object name → members set by constructor constants of a type that has several builders (nested positions only)
	root     string
}

var c14Leaf = jsonCmpOpts{NullEqualsAbsent: true, NilEqualsEmpty: true, AbsentEqualsEmpty: true}

// cmp returns "" when built reproduces v, else "<kind>@<path>: detail".
func (k *c14Cmp) cmp(v, b any, t *amType, path string, df any) string {
	var covered map[string]bool
	if path == "" {
		covered = k.covered[k.root]
	}
	for i := 0; t != nil && t.K == "ref" && i < 20; i++ {
		o := k.s.obj(t.Ref)
		if o == nil {
			break
		}
		if o.T.K == "struct" {
			df = k.defaults[o.Name]
			covered = k.covered[o.Name]
			if extra := k.byChoice[o.Name]; covered != nil && extra != nil && path != "" {
				merged := map[string]bool{}
				for m := range covered {
					merged[m] = true
				}
				for m := range extra {
					merged[m] = true
				}
				covered = merged
			}
		}
		t = o.T
	}
	if t == nil {
		return ""
	}
	switch t.K {
	case "struct":
		vm, vok := v.(map[string]any)
		bm, bok := b.(map[string]any)
		if !vok || !bok {
			if d := jsonDiff(v, b, c14Leaf, path); d != "" {
				return "value@" + d
			}
			return ""
		}
		dfm, _ := df.(map[string]any)
		for _, f := range t.Fields {
			if covered != nil && !covered[f.Name] {
				continue // no option of the builder writes this member (veneers removed it): nothing to reproduce it with
			}
			vf, vhas := vm[f.Name]
			bf, bhas := bm[f.Name]
			p := path + "." + f.Name
			ft := k.s.resolve(f.T)
			isColl := ft != nil && (ft.K == "array" || ft.K == "map")
			if vhas && vf != nil && !(isColl && isEmptyColl(vf)) {
				if !bhas || bf == nil {
					return fmt.Sprintf("missing@%s: input holds %s, rebuilt object holds nothing", p, short(vf))
				}
				var ndf any
				if d := k.cmp(vf, bf, f.T, p, ndf); d != "" {
					return d
				}
				continue
			}
			// the input holds nothing here: the rebuilt object holds nothing, or the builder's default
			if !bhas || isEmptyColl(bf) {
				continue
			}
			if dfm == nil {
				continue // default of an anonymous nested struct: not known to the checker
			}
			if d := jsonDiff(dfm[f.Name], bf, c14Leaf, p); d != "" {
				return fmt.Sprintf("extra@%s: input holds nothing, rebuilt object holds %s, default is %s", p, short(bf), short(dfm[f.Name]))
			}
		}
		return ""
	case "array":
		va, _ := v.([]any)
		ba, _ := b.([]any)
		if len(va) != len(ba) {
			return fmt.Sprintf("value@%s: %d elements in the input, %d rebuilt", path, len(va), len(ba))
		}
		for i := range va {
			if d := k.cmp(va[i], ba[i], t.Elem, fmt.Sprintf("%s[%d]", path, i), nil); d != "" {
				return d
			}
		}
		return ""
	case "map":
		vm, _ := v.(map[string]any)
		bm, _ := b.(map[string]any)
		for _, key := range sortedKeys(vm) {
			bv, ok := bm[key]
			if !ok {
				return fmt.Sprintf("missing@%s.%s: key not rebuilt", path, key)
			}
			if d := k.cmp(vm[key], bv, t.Elem, path+"."+key, nil); d != "" {
				return d
			}
		}
		for _, key := range sortedKeys(bm) {
			if _, ok := vm[key]; !ok {
				return fmt.Sprintf("extra@%s.%s: key not in the input", path, key)
			}
		}
		return ""
	}
	if t.K == "union" && t.Disc != "" {
		// discriminated union of struct references: compare through the branch the value selects
		if vm, ok := v.(map[string]any); ok {
			for _, br := range t.Branches {
				bt := k.s.resolve(br)
				if bt == nil || bt.K != "struct" {
					continue
				}
				for _, f := range bt.Fields {
					if f.Name == t.Disc && f.T.K == "const" && fmt.Sprint(f.T.Const) == fmt.Sprint(vm[t.Disc]) {
						return k.cmp(v, b, br, path, nil)
					}
				}
			}
		}
	}
	if d := jsonDiff(v, b, c14Leaf, path); d != "" {
		return "value@" + d
	}
	return ""
}

func checkC14(r *Run) {
	n := r.n(5, 70)
	r.Rule = "AM schemas (three profiles + the fixed veneer workloads of C09) in 3 formats, Go types + builders + converters generated by real pipeline runs; stage 1 calls every generated converter on values decoded from accepted documents, stage 2 compiles each printed expression in its own file, executes it and logs the rebuilt object. distinct_nontrivial = distinct (schema, converter, document) whose printed code was compiled and executed"
	c := buildCorpus(r, corpusOpts{N: n, Formats: []string{"jsonschema", "openapi", "cue"}, Profile: "general,defaults,constraints", Langs: []string{"go"}, Builders: true, Converters: true,
		DocsPerObj: r.n(5, 9), Tag: "c14", Extras: c09Extras})
	defer c.cleanup()
	// composed builders (one type, same-named builders in several packages): the conversion plans of the real
	// ConverterGenerator are checked against the builders they delegate to (c14_compose.go)
	checkC14Compose(r)
	// the fixed veneer workloads are configurations cog generates builders and converters for: a run that now ends in
	// an error (cog's own formatting step rejecting a converter it printed) has no converter to invert anything
	for _, cs := range c.Schemas {
		if cs.Extra != "" && (cs.GenErr != nil || cs.GenPanic != nil) {
			r.Eval()
			msg := fmt.Sprint(cs.GenErr)
			if cs.GenPanic != nil {
				msg = fmt.Sprint("panic: ", cs.GenPanic)
			}
			cls := "other"
			if strings.Contains(msg, "converter") {
				cls = "converter-file-rejected"
			}
			r.Violation("fixed-workload-not-generated/"+cs.Extra+"/"+cls, fmt.Sprintf("the %s workload (%s input) no longer generates: %s", cs.Extra, cs.Format, truncate(msg, 600)), map[string]any{"format": cs.Format, "schema": string(cs.SchemaText), "veneers": cs.Veneers})
		}
	}
	if err := c.buildGoDriver(); err != nil {
		r.Inconclusive("go driver: " + err.Error())
		return
	}
	for sid, d := range c.BrokenGo {
		r.CaseInconclusive("generated Go of " + sid + " does not compile (C02's business): " + d)
	}
	type meta struct {
		cs  *corpusSchema
		b   ast.Builder
		obj *amObject
		doc amDoc
	}
	metas := map[string]meta{}
	covered := map[string]map[string]map[string]bool{}
	buildersPerObj := map[string]int{}
	constCov := map[string]map[string]bool{} // members set by constructor constants: reproducible by *choosing* a builder when the type has several
	var reqs []drvReq
	for _, cs := range c.Schemas {
		if !cs.GoOK {
			continue
		}
		// lists of a union must interleave branches in an order no regrouping preserves
		if o := cs.AM.obj("Panel"); o != nil && cs.Extra != "" && len(cs.Docs["Panel"]) > 0 {
			if base, ok := cs.Docs["Panel"][0].Val.(map[string]any); ok {
				row := func(t string) any { return map[string]any{"kind": "row", "title": t} }
				graph := func(n string) any { return map[string]any{"kind": "graph", "name": n} }
				// nested builders chosen by their constructor constants (several builders for one type)
				for _, w := range []string{"1.5", "2.5"} {
					doc := deepCopyJSON(base).(map[string]any)
					doc["main"] = map[string]any{"name": "a", "on": true, "weight": json.Number(w)}
					doc["leaf"] = map[string]any{"name": "l", "on": true, "weight": json.Number("2.5")} // every nested value matches some builder
					delete(doc, "byName")
					doc["items"] = []any{map[string]any{"name": "b", "on": true, "weight": json.Number(w)}, map[string]any{"name": "c", "on": true, "weight": json.Number("1.5")}}
					d := amDoc{Obj: "Panel", Val: doc, Label: "nested value matching one builder's constants"}
					if err := cs.Validator.Validate("Panel", d.JSON()); err == nil {
						cs.Docs["Panel"] = append(cs.Docs["Panel"], d)
					} else if os.Getenv("VERIF_DEBUG") != "" {
						fmt.Println("DEBUG c14 custom doc rejected:", err)
					}
				}
				for _, els := range [][]any{
					{row("r1"), graph("g1"), row("r2"), graph("g2"), graph("g3"), row("r3")},
					{graph("g1"), row("r1"), row("r2"), graph("g2")},
				} {
					doc := deepCopyJSON(base).(map[string]any)
					doc["elements"] = els
					d := amDoc{Obj: "Panel", Val: doc, Label: "interleaved union list"}
					if cs.Validator.Validate("Panel", d.JSON()) == nil {
						cs.Docs["Panel"] = append(cs.Docs["Panel"], d)
					}
				}
			}
		}
		ctx, ok := cs.Contexts["go"]
		if !ok {
			continue
		}
		seenObj := map[string]bool{}
		for _, b := range ctx.Builders {
			obj := cs.AM.obj(b.For.Name)
			if obj == nil || obj.T.K != "struct" || b.Package != "pk" {
				continue
			}
			if _, ok := cs.GoConverters[normName(b.Name)]; !ok {
				r.Count("builders_without_generated_converter", 1)
				continue
			}
			buildersPerObj[cs.ID+"/"+obj.Name]++
			for _, as := range b.Constructor.Assignments {
				if len(as.Path) > 0 && as.Value.Constant != nil {
					if constCov[cs.ID+"/"+obj.Name] == nil {
						constCov[cs.ID+"/"+obj.Name] = map[string]bool{}
					}
					constCov[cs.ID+"/"+obj.Name][as.Path[0].Identifier] = true
				}
			}
			if len(b.Constructor.Args) == 0 {
				reqs = append(reqs, drvReq{ID: cs.ID + "/builder:" + b.Name + "#bdef", Op: "build", Type: cs.ID + "." + normName(b.Name)})
			}
			if !seenObj[obj.Name] {
				seenObj[obj.Name] = true
				reqs = append(reqs, drvReq{ID: cs.ID + "/" + obj.Name + "#new", Op: "default", Type: cs.ID + "." + obj.Name})
				if len(b.Constructor.Args) == 0 {
					reqs = append(reqs, drvReq{ID: cs.ID + "/" + obj.Name + "#bdef", Op: "build", Type: cs.ID + "." + normName(b.Name)})
				}
				cov := map[string]bool{}
				for _, as := range b.Constructor.Assignments {
					if len(as.Path) > 0 && as.Value.Argument != nil {
						cov[as.Path[0].Identifier] = true // constants written by the constructor cannot be chosen by the caller
					}
				}
				for _, o := range b.Options {
					for _, as := range o.Assignments {
						if len(as.Path) > 0 {
							cov[as.Path[0].Identifier] = true
						}
					}
				}
				if covered[cs.ID] == nil {
					covered[cs.ID] = map[string]map[string]bool{}
				}
				covered[cs.ID][obj.Name] = cov
			}
			for di, d := range cs.Docs[obj.Name] {
				id := fmt.Sprintf("%s/%s#%d", cs.ID, b.Name, di)
				reqs = append(reqs, drvReq{ID: id, Op: "convert", Type: cs.ID + "." + normName(b.Name), Doc: d.JSON()})
				metas[id] = meta{cs, b, obj, d}
			}
		}
		// defaults of every named struct (elements of arrays, nested references)
		for _, o := range cs.AM.Objs {
			if o.T.K == "struct" && !seenObj[o.Name] && cs.GoTypes[o.Name] {
				seenObj[o.Name] = true
				reqs = append(reqs, drvReq{ID: cs.ID + "/" + o.Name + "#new", Op: "default", Type: cs.ID + "." + o.Name})
			}
		}
	}
	nestedConst := map[string]map[string]map[string]bool{}
	for key, members := range constCov {
		if buildersPerObj[key] < 2 {
			continue
		}
		sid, on, _ := strings.Cut(key, "/")
		if nestedConst[sid] == nil {
			nestedConst[sid] = map[string]map[string]bool{}
		}
		nestedConst[sid][on] = members
	}
	resps, err := c.runGo(reqs)
	if err != nil {
		r.CaseInconclusive("go driver run: " + err.Error())
	}
	defaults := map[string]map[string]any{}
	for _, suffix := range []string{"#new", "#bdef"} { // the builder's own default object wins over the type's
		for id, rp := range resps {
			raw := rp.Out
			if suffix == "#bdef" {
				raw = rp.Internal
			}
			if strings.HasSuffix(id, suffix) && len(raw) > 0 && rp.Panic == "" {
				sid, on, _ := strings.Cut(strings.TrimSuffix(id, suffix), "/")
				if defaults[sid] == nil {
					defaults[sid] = map[string]any{}
				}
				defaults[sid][on], _ = parseJSONNum(raw)
			}
		}
	}
	ids := make([]string, 0, len(metas))
	for id := range metas {
		ids = append(ids, id)
	}
	sort.Strings(ids)
	var s2 []stage2Case
	replayOf := func(m meta, code string) map[string]any {
		return map[string]any{"format": m.cs.Format, "veneers": m.cs.Veneers, "converter": m.b.Name, "document": string(m.doc.JSON()), "printed_code": code, "schema": string(m.cs.SchemaText)}
	}
	for _, id := range ids {
		m := metas[id]
		rp, ok := resps[id]
		if !ok {
			r.CaseInconclusive("no stage-1 response for " + id)
			continue
		}
		if rp.Unknown {
			r.Count("converters_unknown_to_driver", 1)
			continue
		}
		if rp.DecodeErr != "" {
			r.Count("documents_not_decodable_by_the_generated_type(skipped)", 1)
			continue
		}
		r.Count("events.stage1.converter_calls", 1)
		if rp.Panic != "" {
			r.Eval()
			key := "converter-panics/" + maskMsg(truncate(rp.Panic, 90))
			if strings.Contains(rp.Panic, "nil pointer") && hasNullCollectionElement(m.doc.Val, false) {
				// root cause: elements of collections of nullable references are dereferenced without a nil guard
				key = "converter-panics/null-element-of-collection"
			}
			if doc, ok := m.doc.Val.(map[string]any); ok {
				for _, as := range m.b.Constructor.Assignments {
					if as.Value.Argument == nil {
						continue
					}
					if v, has := lookupPath(doc, pathIdents(as.Path)); !has || v == nil {
						// root cause: constructor arguments of optional members are dereferenced without a nil guard
						key = "converter-panics/optional-constructor-argument-absent"
					}
				}
			}
			r.Violation(key, fmt.Sprintf("converter %sConverter panics on %s: %s", m.b.Name, m.doc.JSON(), rp.Panic), replayOf(m, ""))
			continue
		}
		if strings.TrimSpace(rp.Code) == "" {
			r.Eval()
			r.Violation("converter-prints-nothing", fmt.Sprintf("converter %sConverter returns an empty string for %s", m.b.Name, m.doc.JSON()), replayOf(m, ""))
			continue
		}
		s2 = append(s2, stage2Case{ID: id, SID: m.cs.ID, Expr: rp.Code})
	}
	if len(s2) == 0 {
		r.Inconclusive("no converter output to compile")
		return
	}
	built, broken, err := c.runStage2(s2)
	if err != nil {
		r.Inconclusive(err.Error())
		return
	}
	for _, sc := range s2 {
		m := metas[sc.ID]
		rp := resps[sc.ID]
		r.Eval()
		replay := replayOf(m, sc.Expr)
		if diags, bad := broken[sc.ID]; bad {
			judged := 0
			for _, diag := range diags {
				if strings.Contains(diag, "time.Location") {
					// time values with a zone offset are printed by cog.Dump, which the harness supplies from the repository's runtime snapshot
					r.Count("printed_time_with_zone_offset_not_compilable(Dump helper, not judged)", 1)
					continue
				}
				judged++
				key := "printed-code-does-not-compile/" + c14MaskDiag(diag)
				multi := false
				for on, nb := range buildersPerObj {
					if strings.HasPrefix(on, m.cs.ID+"/") && nb > 1 {
						multi = true
					}
				}
				if strings.HasPrefix(diag, "not enough arguments in call to") || multi && strings.HasPrefix(diag, "syntax error") {
					// root cause: no builder of the nested value's type matches its constants, the argument is left empty
					key = "printed-code-does-not-compile/nested-builder-argument-left-empty"
				}
				r.Violation(key, fmt.Sprintf("the code printed by %sConverter for %s does not compile: %s\n%s", m.b.Name, m.doc.JSON(), diag, truncate(sc.Expr, 600)), replay)
			}
			_ = judged
			continue
		}
		bp, ok := built[sc.ID]
		if !ok {
			r.CaseInconclusive("no stage-2 response for " + sc.ID)
			continue
		}
		r.Distinct(sc.ID)
		r.Count("events.stage2.expressions_executed", 1)
		// exactly once
		calls := splitTopLevel(sc.Expr, ".\t\n")
		seen := map[string]int{}
		for _, cl := range calls[1:] {
			name := cl
			if i := strings.Index(cl, "("); i >= 0 {
				name = cl[:i]
			}
			seen[normName(name)]++
		}
		for _, opt := range m.b.Options {
			repeatable := false
			for _, as := range opt.Assignments {
				if as.Method != ast.DirectAssignment {
					repeatable = true
				}
			}
			if cnt := seen[normName(opt.Name)]; cnt > 1 && !repeatable {
				r.Violation("option-printed-more-than-once", fmt.Sprintf("%sConverter prints option %s %d times for %s:\n%s", m.b.Name, opt.Name, cnt, m.doc.JSON(), truncate(sc.Expr, 600)), replay)
			}
		}
		if bp.Panic != "" {
			r.Violation("printed-code-panics/"+maskMsg(truncate(bp.Panic, 90)), fmt.Sprintf("the code printed by %sConverter for %s panics: %s", m.b.Name, m.doc.JSON(), bp.Panic), replay)
			continue
		}
		if hasNullRequired(m.cs.AM, m.obj.T, m.doc.Val, 0) {
			// the builder API cannot express null for a required member: the rebuilt object keeps the
			// constructor's value there (which may not even validate), nested Build() calls may fail
			r.Count("inputs_with_null_for_a_required_member(not judged)", 1)
			continue
		}
		if bp.BuildErr != "" {
			if rp.ValidateErr != "" {
				r.Count("inputs_failing_their_own_validation(not judged)", 1)
				continue
			}
			r.Violation("rebuilt-object-fails-validation/"+maskMsg(afterColon(firstLine(bp.BuildErr))), fmt.Sprintf("the input %s passes Validate() but the object rebuilt by the printed code does not: %s\n%s", m.doc.JSON(), bp.BuildErr, truncate(sc.Expr, 600)), replay)
			continue
		}
		if os.Getenv("VERIF_DEBUG") != "" && m.cs.Extra == os.Getenv("VERIF_DEBUG") && strings.Contains(m.doc.Label, "nested value") {
			fmt.Printf("DEBUG %s %s input=%s\n  code=%s\n  rebuilt=%s\n", m.cs.Format, m.b.Name, truncate(string(rp.Out), 400), truncate(sc.Expr, 900), truncate(string(bp.Out), 400))
		}
		v, _ := parseJSONNum(rp.Out)
		b, _ := parseJSONNum(bp.Out)
		nestedDefaults := map[string]any{}
		for on, dv := range defaults[m.cs.ID] {
			nestedDefaults[on] = dv
		}
		k := &c14Cmp{s: m.cs.AM, defaults: nestedDefaults, covered: covered[m.cs.ID], byChoice: nestedConst[m.cs.ID], root: m.obj.Name}
		// defaults: the converted builder's own default object at the top; for nested objects of a type that has several
		// builders the default depends on which builder the converter picks, so "the input holds nothing" is not judged there
		rootDefault := defaults[m.cs.ID][m.obj.Name]
		if bd, ok := defaults[m.cs.ID]["builder:"+m.b.Name]; ok {
			rootDefault = bd
		}
		for on := range k.defaults {
			if buildersPerObj[m.cs.ID+"/"+on] > 1 {
				delete(k.defaults, on)
			}
		}
		if d := k.cmp(v, b, m.obj.T, "", rootDefault); d != "" {
			kind, rest, _ := strings.Cut(d, "@")
			p := strings.SplitN(rest, ":", 2)[0]
			tag := stripDefaults(tagAtPath(m.cs.AM, m.obj.T, p))
			if strings.HasPrefix(tag, "datetime") && strings.Contains(sc.Expr, "time.Time{}") {
				// a time value nested in a composite literal is printed by cog.Dump (supplied by the harness from the repository's runtime snapshot)
				r.Count("time_inside_dumped_literal(Dump helper, not judged)", 1)
				continue
			}
			key := "rebuilt-object-differs/" + kind + "/" + tag
			if kind == "missing" {
				// was the option for this member printed at all?
				first := strings.SplitN(strings.TrimPrefix(p, "."), ".", 2)[0]
				if seen[normName(first)] == 0 {
					key = "rebuilt-object-differs/option-not-printed/" + tag
					if m, ok := jsonAt(v, "."+first).(map[string]any); ok {
						for _, mv := range m {
							if s, isStr := mv.(string); isEmptyColl(mv) && mv != nil || isStr && s == "" {
								// root cause shared by many shapes: one empty member makes the guards drop the whole option
								key = "rebuilt-object-differs/option-not-printed/struct-with-an-empty-member"
							}
						}
					}
				}
			}
			// root cause shared by many shapes: guards treat a zero value as "nothing to reproduce"
			switch leaf := jsonAt(v, p).(type) {
			case string:
				if leaf == "" {
					key = "rebuilt-object-differs/zero-value-not-reproduced/empty-string"
				}
			case bool:
				if !leaf {
					key = "rebuilt-object-differs/zero-value-not-reproduced/false"
				}
			case json.Number:
				if f, err := leaf.Float64(); err == nil && f == 0 {
					key = "rebuilt-object-differs/zero-value-not-reproduced/zero"
				}
			}
			r.Violation(key, fmt.Sprintf("%sConverter: the object rebuilt by the printed code differs from the input %s at %s\n%s", m.b.Name, rp.Out, rest, truncate(sc.Expr, 600)), replay)
		}
	}
}

// jsonAt follows a jsonDiff-style path (".a.b[0].c") through a JSON value.
func jsonAt(v any, path string) any {
	cur := v
	for _, m := range pathStepRe.FindAllStringSubmatch(path, -1) {
		switch {
		case m[1] != "":
			mm, ok := cur.(map[string]any)
			if !ok {
				return nil
			}
			cur = mm[m[1]]
		case m[2] != "":
			arr, ok := cur.([]any)
			var i int
			fmt.Sscanf(m[2], "%d", &i)
			if !ok || i >= len(arr) {
				return nil
			}
			cur = arr[i]
		}
	}
	return cur
}

// hasNullRequired: does the document hold null for a required member, at any depth?
func hasNullRequired(s *amSchema, t *amType, v any, depth int) bool {
	t = s.resolve(t)
	if t == nil || depth > 30 {
		return false
	}
	switch t.K {
	case "struct":
		m, ok := v.(map[string]any)
		if !ok {
			return false
		}
		for _, f := range t.Fields {
			fv, has := m[f.Name]
			if has && fv == nil && f.Required {
				return true
			}
			if has && hasNullRequired(s, f.T, fv, depth+1) {
				return true
			}
		}
	case "array":
		if arr, ok := v.([]any); ok {
			for _, e := range arr {
				if hasNullRequired(s, t.Elem, e, depth+1) {
					return true
				}
			}
		}
	case "map":
		if m, ok := v.(map[string]any); ok {
			for _, e := range m {
				if hasNullRequired(s, t.Elem, e, depth+1) {
					return true
				}
			}
		}
	case "union":
		if m, ok := v.(map[string]any); ok && t.Disc != "" {
			for _, br := range t.Branches {
				bt := s.resolve(br)
				if bt == nil || bt.K != "struct" {
					continue
				}
				for _, f := range bt.Fields {
					if f.Name == t.Disc && f.T.K == "const" && fmt.Sprint(f.T.Const) == fmt.Sprint(m[t.Disc]) {
						return hasNullRequired(s, br, v, depth+1)
					}
				}
			}
		}
	}
	return false
}

var c14ValueOfRe = regexp.MustCompile(` \(value of type [^)]*\)`)
var c14ColonTail = regexp.MustCompile(`: .*$`)

// c14MaskDiag keeps what names the defect: what was printed, what was expected, for which option/constructor.
func c14MaskDiag(diag string) string {
	d := c14ValueOfRe.ReplaceAllString(diag, "")
	d = regexp.MustCompile(`0x[0-9a-fA-F]+`).ReplaceAllString(d, "0xN")
	d = regexp.MustCompile(`untyped int constant \d+`).ReplaceAllString(d, "untyped int constant N")
	d = c14ColonTail.ReplaceAllString(d, "")
	d = strings.ReplaceAll(d, "\"example.com/gen/", "\"")
	d = regexp.MustCompile(`"s\d+/(pk|cog)"\.`).ReplaceAllString(d, "$1.")
	marker := " in argument to "
	if !strings.Contains(d, marker) {
		marker = " in call to "
	}
	if i := strings.Index(d, marker); i >= 0 {
		callee := d[i+len(marker):]
		// drop call arguments of the chain, keep its last element
		var sb strings.Builder
		depth := 0
		for _, c := range callee {
			switch c {
			case '(', '[', '{':
				depth++
			case ')', ']', '}':
				depth--
			default:
				if depth == 0 {
					sb.WriteRune(c)
				}
			}
		}
		parts := strings.Split(sb.String(), ".")
		d = d[:i] + marker + parts[len(parts)-1]
	}
	return truncate(d, 160)
}
