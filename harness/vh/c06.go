package main

import (
	"context"
	"fmt"
	"github.com/grafana/cog/internal/tools"
	"os"
	"path/filepath"
	"regexp"
	"strings"

	"github.com/grafana/cog/internal/ast"
	"github.com/grafana/cog/internal/codegen"
)

// C06 — each language's generators receive the normal form they assume.
// Invariant monitor on the IR that comes out of the language's pass chain (what
// `cog inspect --language L` shows), for irgen IRs and for parser-derived IRs.

func init() { register("C06", checkC06) }

var numericNameRe = regexp.MustCompile(`^[+-]?[0-9]+$`)

type nfViolation struct {
	pred string
	ctx  string
	obj  string
}

// normalFormViolations walks every type position of the schemas (hints are metadata, not walked).
func normalFormViolations(lang string, schemas ast.Schemas) []nfViolation {
	var out []nfViolation
	noUnion := lang == "go" || lang == "java"
	namedEnums := lang == "go" || lang == "java" || lang == "php"
	structRules := lang == "go" || lang == "java" || lang == "php" || lang == "python"

	var walk func(obj ast.Object, t ast.Type, ctx []string, top bool, inIntersection bool)
	walk = func(obj ast.Object, t ast.Type, ctx []string, top bool, inIntersection bool) {
		where := strings.Join(ctx, ">")
		add := func(pred string) { out = append(out, nfViolation{pred, where, obj.SelfRef.String()}) }
		switch t.Kind {
		case ast.KindDisjunction:
			if t.Disjunction == nil {
				return
			}
			if noUnion {
				add("union-remains")
			}
			if structRules && len(t.Disjunction.Branches) == 2 && t.Disjunction.Branches.HasNullType() {
				add("T|null-remains")
			}
			for _, b := range t.Disjunction.Branches {
				walk(obj, b, append(ctx, "union"), false, false)
			}
		case ast.KindEnum:
			if t.Enum == nil {
				return
			}
			if namedEnums && !top {
				add("anonymous-enum")
			}
			for _, m := range t.Enum.Values {
				switch lang {
				case "go":
					// the prefix is the object's name as Go spells it (UpperCamelCase), not necessarily its raw name
					if top && !strings.HasPrefix(m.Name, upperFirst(obj.Name)) && !strings.HasPrefix(m.Name, tools.UpperCamelCase(obj.Name)) {
						add("enum-member-not-prefixed")
					}
				case "typescript", "python":
					// names of anonymous enums are never emitted as identifiers by these two
					// languages; only named enums are judged
					if top && numericNameRe.MatchString(m.Name) {
						add("numeric-enum-member-name")
					}
				case "php":
					if m.Name == "" || m.Name[0] == '-' || m.Name[0] == '+' {
						add("unsanitised-enum-member-name")
					}
				}
			}
		case ast.KindStruct:
			if t.Struct == nil {
				return
			}
			if structRules && !top && !inIntersection {
				add("anonymous-struct")
			}
			for _, f := range t.Struct.Fields {
				if structRules && !f.Required && !f.Type.Nullable {
					out = append(out, nfViolation{"optional-field-not-nullable", where + ">field:" + string(f.Type.Kind), obj.SelfRef.String()})
				}
				// an inline struct below a member of an allOf branch is still "inside the composition"
				walk(obj, f.Type, append(ctx, "field"), false, inIntersection && f.Type.Kind == ast.KindStruct)
			}
		case ast.KindArray:
			if t.Array != nil {
				walk(obj, t.Array.ValueType, append(ctx, "array"), false, false)
			}
		case ast.KindMap:
			if t.Map != nil {
				walk(obj, t.Map.IndexType, append(ctx, "mapkey"), false, false)
				walk(obj, t.Map.ValueType, append(ctx, "map"), false, false)
			}
		case ast.KindIntersection:
			if t.Intersection != nil {
				for _, b := range t.Intersection.Branches {
					walk(obj, b, append(ctx, "intersection"), false, true)
				}
			}
		}
	}
	for _, s := range schemas {
		if s == nil || s.Objects == nil {
			continue
		}
		s.Objects.Iterate(func(_ string, o ast.Object) {
			walk(o, o.Type, []string{"obj:" + string(o.Type.Kind)}, true, false)
		})
	}
	return out
}

func upperFirst(s string) string {
	if s == "" {
		return s
	}
	b := []byte(s)
	if b[0] >= 'a' && b[0] <= 'z' {
		b[0] -= 32
	}
	return string(b)
}

// shortCtx keeps the object kind and the last two position steps.
func shortCtx(ctx string) string {
	parts := strings.Split(ctx, ">")
	if len(parts) <= 3 {
		return ctx
	}
	return parts[0] + ">…>" + strings.Join(parts[len(parts)-2:], ">")
}

var c06Langs = []string{"go", "java", "php", "python", "typescript"}

func checkC06(r *Run) {
	r.Rule = "irgen IRs (nesting depth ≤5: unions in arrays in union branches, enums in map values in structs in arrays, objects of every kind, cross-package refs) and parser-derived IRs (AM schemas in 3 formats through the YAML pipeline) pushed through each language's real pass chain; predicate walker over every type position of the result. distinct_nontrivial = distinct (input IR, language) pairs whose chain completed"
	n := r.n(150, 3000)
	events := 0
	type corpusDef struct {
		tag string
		mod func(o *irOpts)
		n   int
	}
	corpora := []corpusDef{
		{"main", func(o *irOpts) {}, n},
		{"tag:nested-unions", func(o *irOpts) { o.NestedUnions = true }, n / 5},
		{"tag:alias-objects", func(o *irOpts) { o.AliasObjects = true }, n / 5},
		{"tag:intersections", func(o *irOpts) { o.Intersections = true }, n / 5},
		{"tag:same-names-across-packages", func(o *irOpts) { o.UniqueNames = false; o.CaseVariants = true }, n / 5},
	}
	for _, cd := range corpora {
		for c := 0; c < cd.n; c++ {
			rng := newRNG("C06", r.Seed, cd.tag, c)
			o := defaultIROpts()
			o.Pkgs = 3
			o.Depth = rng.Range(2, 5)
			o.NumericEnumNames = true
			o.NestedUnions, o.AliasObjects, o.Intersections, o.UniqueNames = false, false, false, true
			cd.mod(&o)
			schemas, tags := genSchemas(rng, o)
			if len(schemas) > 0 {
				// an anonymous struct that is a union branch of a member of another anonymous struct
				s0 := schemas[0]
				s0.AddObject(ast.NewObject(s0.Package, "AimNested", ast.NewStruct(
					ast.NewStructField("options", ast.NewStruct(
						ast.NewStructField("legend", ast.NewDisjunction([]ast.Type{ast.String(), ast.NewStruct(ast.NewStructField("placement", ast.String(), ast.Required()))}), ast.Required()),
						ast.NewStructField("list", ast.NewArray(ast.NewDisjunction([]ast.Type{
							ast.Bool(),
							ast.NewStruct(ast.NewStructField("deep", ast.NewStruct(ast.NewStructField("x", ast.String())))),
						}))),
					), ast.Required()),
				)))
			}
			if len(schemas) > 0 {
				// a named enum of strings whose member names start with a sign (sort orders, UTC offsets)
				s0 := schemas[0]
				s0.AddObject(ast.NewObject(s0.Package, "AimSigns", ast.NewEnum([]ast.EnumValue{
					{Type: ast.String(), Name: "+name", Value: "+name"},
					{Type: ast.String(), Name: "-name", Value: "-name"},
					{Type: ast.String(), Name: "+01:00", Value: "+01:00"},
					{Type: ast.String(), Name: "plain", Value: "plain"},
				})))
				s0.AddObject(ast.NewObject(s0.Package, "AimSignsUser", ast.NewStruct(
					ast.NewStructField("order", ast.NewRef(s0.Package, "AimSigns"), ast.Required()),
					ast.NewStructField("inline", ast.NewEnum([]ast.EnumValue{{Type: ast.String(), Name: "+up", Value: "+up"}, {Type: ast.String(), Name: "-down", Value: "-down"}})),
				)))
			}
			if o.Intersections && len(schemas) > 0 {
				// unions that are direct branches of an allOf
				s1 := schemas[0]
				s1.AddObject(ast.NewObject(s1.Package, "AimMixBase", ast.NewStruct(ast.NewStructField("id", ast.String(), ast.Required()))))
				s1.AddObject(ast.NewObject(s1.Package, "AimMixScalars", ast.NewIntersection([]ast.Type{
					ast.NewRef(s1.Package, "AimMixBase"),
					ast.NewDisjunction([]ast.Type{ast.String(), ast.Bool()}),
				})))
				s1.AddObject(ast.NewObject(s1.Package, "AimMixNullable", ast.NewIntersection([]ast.Type{
					ast.NewRef(s1.Package, "AimMixBase"),
					ast.NewDisjunction([]ast.Type{ast.String(), ast.Null()}),
				})))
				s1.AddObject(ast.NewObject(s1.Package, "AimMixRefs", ast.NewIntersection([]ast.Type{
					ast.NewDisjunction([]ast.Type{ast.NewRef(s1.Package, "AimMixBase"), ast.NewRef(s1.Package, "AimSignsUser")}),
					ast.NewStruct(ast.NewStructField("extra", ast.String())),
				})))
			}
			if o.Intersections && len(schemas) > 0 {
				// an allOf whose inline branch holds inline structs with optional members (inline structs survive only there)
				s0 := schemas[0]
				s0.AddObject(ast.NewObject(s0.Package, "AimBase", ast.NewStruct(ast.NewStructField("id", ast.String(), ast.Required()))))
				s0.AddObject(ast.NewObject(s0.Package, "AimPanel", ast.NewIntersection([]ast.Type{
					ast.NewRef(s0.Package, "AimBase"),
					ast.NewStruct(
						ast.NewStructField("settings", ast.NewStruct(
							ast.NewStructField("opt", ast.String()),
							ast.NewStructField("req", ast.String(), ast.Required()),
						), ast.Required()),
						ast.NewStructField("maybe", ast.NewStruct(ast.NewStructField("x", ast.Bool()))),
						ast.NewStructField("plainOpt", ast.NewScalar(ast.KindInt64)),
					),
				})))
			}
			input := mustJSON(schemas)
			for _, lang := range c06Langs {
				var result ast.Schemas
				var err error
				pv, _ := guard(func() { result, err = newLanguage(lang).CompilerPasses().Process(schemas) })
				r.Eval()
				if pv != nil || err != nil {
					r.Count("chains_failed(panic/error: C04's business)", 1)
					continue
				}
				events++
				r.Distinct(lang + input)
				c06Judge(r, lang, schemas, result, cd.tag)
			}
			if c < 1 && cd.tag == "main" {
				r.Sample(map[string]any{"irgen_case": c, "construct_tags": tags})
			}
		}
		r.Count("irgen_cases/"+cd.tag, cd.n)
	}
	r.Count("irgen_chain_results_checked", events)

	// parser-derived IRs through the real pipeline
	na := r.n(8, 120)
	dir, _ := os.MkdirTemp(scratchDir(), "c06-")
	defer os.RemoveAll(dir)
	pevents := 0
	for c := 0; c < na; c++ {
		for _, format := range []string{"jsonschema", "openapi", "cue"} {
			rng := newRNG("C06am", r.Seed, c, format)
			am := genAM(rng, capsFor(format), "pk", "general")
			sub := filepath.Join(dir, fmt.Sprintf("%d-%s", c, format))
			in, _ := materializeAM(sub, am, format)
			cfg := pipeCfg{Inputs: []pipeInput{in}, Types: true, Builders: true, OutDir: filepath.Join(sub, "out", "%l")}
			for _, l := range c06Langs {
				cfg.Langs = append(cfg.Langs, langCfg{Name: l, Flags: defaultLangFlags(l)})
			}
			pf := filepath.Join(sub, "pipeline.yaml")
			_ = os.WriteFile(pf, []byte(cfg.YAML()), 0o644)
			pv, _ := guard(func() {
				p, err := codegen.PipelineFromFile(pf, codegen.Parameters(nil))
				if err != nil {
					return
				}
				schemas, err := p.LoadSchemas(context.Background())
				if err != nil {
					r.Count("parser_errors(skipped)", 1)
					return
				}
				langs, _ := p.OutputLanguages()
				for _, l := range c06Langs {
					ctx, err := p.ContextForLanguage(langs[l], schemas)
					r.Eval()
					if err != nil {
						r.Count("chains_failed(panic/error: C04's business)", 1)
						continue
					}
					pevents++
					r.Distinct(l + format + fmt.Sprint(c))
					c06Judge(r, l, schemas, ctx.Schemas, format)
				}
			})
			if pv != nil {
				r.Count("chains_failed(panic/error: C04's business)", 1)
			}
		}
	}
	r.Count("parser_chain_results_checked", pevents)
	if events == 0 || pevents == 0 {
		r.Inconclusive("no chain result observed")
	}
}

func (s *amSchema) render(format string) []byte {
	switch format {
	case "jsonschema":
		return s.renderJSONSchema()
	case "openapi":
		return s.renderOpenAPI()
	}
	return s.renderCUE()
}

// irFeatures describes the shapes present in a (minimised) input IR; used to key findings by root
// cause instead of by position.
func irFeatures(schemas ast.Schemas) string {
	feats := map[string]bool{}
	var walk func(t ast.Type, underUnion bool, depth int)
	walk = func(t ast.Type, underUnion bool, depth int) {
		if depth > 40 {
			return
		}
		switch t.Kind {
		case ast.KindDisjunction:
			if t.Disjunction == nil {
				return
			}
			if underUnion {
				feats["union-nested-in-union-branch"] = true
			}
			for _, b := range t.Disjunction.Branches {
				if b.Kind == ast.KindRef && b.Ref != nil {
					if o, ok := schemas.LocateObject(b.Ref.ReferredPkg, b.Ref.ReferredType); ok && o.Type.Kind == ast.KindScalar && o.Type.Scalar != nil && o.Type.Scalar.Value != nil {
						feats["union-with-ref-to-constant-branch"] = true
					}
				}
				walk(b, true, depth+1)
			}
		case ast.KindArray:
			if t.Array != nil {
				walk(t.Array.ValueType, underUnion, depth+1)
			}
		case ast.KindMap:
			if t.Map != nil {
				walk(t.Map.ValueType, underUnion, depth+1)
			}
		case ast.KindStruct:
			if t.Struct != nil {
				for _, f := range t.Struct.Fields {
					walk(f.Type, underUnion, depth+1)
				}
			}
		case ast.KindIntersection:
			feats["intersection"] = true
			if t.Intersection != nil {
				for _, b := range t.Intersection.Branches {
					walk(b, underUnion, depth+1)
				}
			}
		}
	}
	names := map[string]int{}
	for _, s := range schemas {
		s.Objects.Iterate(func(_ string, o ast.Object) {
			names[strings.ToLower(o.Name)]++
			if o.Type.Kind == ast.KindRef {
				feats["alias-object"] = true
			}
			walk(o.Type, false, 0)
		})
	}
	for _, n := range names {
		if n > 1 {
			feats["same-object-name-in-two-packages"] = true
		}
	}
	if len(feats) == 0 {
		return "plain"
	}
	return strings.Join(sortedKeys(feats), "+")
}

func c06Judge(r *Run, lang string, input, result ast.Schemas, source string) {
	seenPred := map[string]bool{}
	for _, v := range normalFormViolations(lang, result) {
		if seenPred[v.pred] {
			continue
		}
		seenPred[v.pred] = true
		pred := v.pred
		key := fmt.Sprintf("%s/%s/%s", lang, pred, source)
		if !strings.HasPrefix(source, "tag:") {
			key += "/" + shortCtx(v.ctx)
		}
		if r.alreadyReported(key) {
			r.Violation(key, "", nil)
			continue
		}
		small := shrinkSchemas(input, func(cand ast.Schemas) bool {
			res, err := newLanguage(lang).CompilerPasses().Process(cand)
			if err != nil {
				return false
			}
			for _, w := range normalFormViolations(lang, res) {
				if w.pred == pred {
					return true
				}
			}
			return false
		}, 150)
		after, _ := newLanguage(lang).CompilerPasses().Process(cloneSchemas(small))
		r.Violation(key, fmt.Sprintf("after the %s chain (%s corpus): %s at %s (object %s).\nminimised input IR [%s]:\n%safter the chain:\n%s", lang, source, v.pred, v.ctx, v.obj, irFeatures(small), irSummary(small), irSummary(after)), map[string]any{"language": lang, "input_ir": mustJSON(small)})
	}
}
