package main

import (
	"encoding/json"
	"fmt"
	"os"

	"github.com/grafana/cog/internal/ast"
	"github.com/grafana/cog/internal/ast/compiler"
)

func init() {
	subcommands["irdbg"] = func(args []string) {
		raw, err := os.ReadFile(args[0])
		if err != nil {
			fmt.Println(err)
			return
		}
		var rp struct {
			Case struct {
				InputIR  string `json:"input_ir"`
				Language string `json:"language"`
			} `json:"case"`
		}
		_ = json.Unmarshal(raw, &rp)
		var schemas ast.Schemas
		if err := json.Unmarshal([]byte(rp.Case.InputIR), &schemas); err != nil {
			fmt.Println("cannot decode IR:", err)
			return
		}
		lang := rp.Case.Language
		if len(args) > 1 {
			lang = args[1]
		}
		fmt.Println("INPUT\n" + irSummary(schemas))
		cur := schemas
		for _, pass := range newLanguage(lang).CompilerPasses() {
			cur, err = compiler.Passes{pass}.Process(cur)
			fmt.Printf("== after %T (err=%v)\n%s", pass, err, irSummary(cur))
			if err != nil {
				return
			}
		}
	}
}
