package main

import (
	"encoding/json"
	"fmt"
	"os"
	"path/filepath"
	"strings"

	"github.com/grafana/cog/internal/veneers/rewrite"
	cogyaml "github.com/grafana/cog/internal/yaml"

	"github.com/grafana/cog/internal/ast"
	"github.com/grafana/cog/internal/ast/compiler"
)

func init() {
	subcommands["irdbg"] = func(args []string) {
		raw, err := os.ReadFile(args[0])
		if err != nil {
			fmt.Println(err)
			return
		}
		var rp struct {
			Case struct {
				InputIR  string `json:"input_ir"`
				Language string `json:"language"`
			} `json:"case"`
		}
		_ = json.Unmarshal(raw, &rp)
		var schemas ast.Schemas
		if err := json.Unmarshal([]byte(rp.Case.InputIR), &schemas); err != nil {
			fmt.Println("cannot decode IR:", err)
			return
		}
		lang := rp.Case.Language
		if len(args) > 1 {
			lang = args[1]
		}
		fmt.Println("INPUT\n" + irSummary(schemas))
		cur := schemas
		for _, pass := range newLanguage(lang).CompilerPasses() {
			cur, err = compiler.Passes{pass}.Process(cur)
			fmt.Printf("== after %T (err=%v)\n%s", pass, err, irSummary(cur))
			if err != nil {
				return
			}
		}
	}
}

func init() {
	subcommands["c17dbg"] = func(args []string) {
		raw, _ := os.ReadFile(args[0])
		var rp struct {
			Case struct {
				InputIR  string `json:"input_ir"`
				Language string `json:"language"`
				Veneers  string `json:"veneers"`
			} `json:"case"`
		}
		_ = json.Unmarshal(raw, &rp)
		fmt.Println(rp.Case.Veneers)
		var schemas ast.Schemas
		if err := json.Unmarshal([]byte(rp.Case.InputIR), &schemas); err != nil {
			fmt.Println("cannot decode IR:", err)
			return
		}
		processed, err := newLanguage(rp.Case.Language).CompilerPasses().Process(schemas)
		fmt.Println("chain err:", err)
		builders := (&ast.BuilderGenerator{}).FromAST(processed)
		// apply the veneers (split per "language:" document)
		dir, _ := os.MkdirTemp("", "c17dbg")
		defer os.RemoveAll(dir)
		var files []string
		for i, doc := range strings.Split(rp.Case.Veneers, "language: all\n") {
			if strings.TrimSpace(doc) == "" {
				continue
			}
			f := filepath.Join(dir, fmt.Sprintf("v%d.yaml", i))
			_ = os.WriteFile(f, []byte("language: all\n"+doc), 0o644)
			files = append(files, f)
		}
		rw, err := cogyaml.NewVeneersLoader().RewriterFrom(files, rewrite.Config{})
		fmt.Println("veneers load err:", err)
		if err == nil {
			builders, err = rw.ApplyTo(processed, builders, rp.Case.Language)
			fmt.Println("apply err:", err)
		}
		for _, b := range builders {
			if len(args) > 1 && b.Name != args[1] {
				continue
			}
			fmt.Printf("builder %s.%s\n", b.Package, b.Name)
			for _, o := range b.Options {
				fmt.Printf("   option %s args=%d\n", o.Name, len(o.Args))
				for _, a := range o.Args {
					fmt.Printf("      arg %s: %s\n", a.Name, typeSummary(a.Type, 0))
				}
				for _, a := range o.Assignments {
					fmt.Printf("      assign %s (%s)\n", a.Path.String(), a.Method)
				}
			}
		}
	}
}

func init() {
	// vh passdbg <pipeline.yaml> <pkg> <object>: prints the object after every compiler pass of every chain (debug aid)
	subcommands["passdbg"] = func(args []string) {
		last := ""
		withSink(func(site string, a ...any) {
			if site != "pass.after" && site != "chain.begin" {
				return
			}
			var schemas ast.Schemas
			label := site
			if site == "pass.after" {
				schemas = a[2].(ast.Schemas)
				label = fmt.Sprintf("after #%d %T", a[0].(int), a[1])
			} else {
				schemas = a[0].(ast.Schemas)
			}
			obj, ok := schemas.LocateObject(args[1], args[2])
			cur := "absent"
			if ok {
				cur = typeSummary(obj.Type, 0)
			}
			if cur != last {
				fmt.Printf("== %s\n%s\n", label, cur)
				last = cur
			}
		}, func() {
			res := runPipelineFile(args[0], "")
			fmt.Println("err:", res.Err, "panic:", res.Panic)
		})
	}
}
