package main

import (
	"context"
	"encoding/json"
	"fmt"
	"os"
	"os/exec"
	"path/filepath"
	"regexp"
	"sort"
	"strings"

	"github.com/grafana/cog/internal/codegen"
)

// C03 — generation is deterministic. Differential re-execution: the same pipeline file is run K
// times in this process (fresh Pipeline values) and P times in fresh child processes; every artefact
// (generated files, LoadSchemas JSON, per-language ContextForLanguage JSON = what `cog inspect`
// prints) must have one digest. The only scheduling freedom is Go map iteration order, re-drawn by
// the runtime at every range: a 2-entry canary map must show both orders within K, else inconclusive.

func init() {
	register("C03", checkC03)
	subcommands["c03child"] = func(args []string) {
		arts, err := c03Artefacts(args[0], args[1])
		if err != nil {
			fmt.Println("ERROR", err)
			return
		}
		b, _ := json.Marshal(arts)
		fmt.Println(string(b))
	}
}

// materializeAM writes the rendered schema under dir and returns the pipeline input.
func materializeAM(dir string, am *amSchema, format string) (pipeInput, []byte) {
	in := filepath.Join(dir, am.Pkg+"-"+format)
	_ = os.MkdirAll(in, 0o755)
	switch format {
	case "jsonschema":
		txt := am.renderJSONSchema()
		p := filepath.Join(in, am.Pkg+".json")
		_ = os.WriteFile(p, txt, 0o644)
		return pipeInput{Kind: "jsonschema", Path: p, Package: am.Pkg}, txt
	case "openapi":
		txt := am.renderOpenAPI()
		p := filepath.Join(in, am.Pkg+".json")
		_ = os.WriteFile(p, txt, 0o644)
		return pipeInput{Kind: "openapi", Path: p, Package: am.Pkg}, txt
	default:
		txt := am.renderCUE()
		d := filepath.Join(in, am.Pkg)
		_ = os.MkdirAll(d, 0o755)
		_ = os.WriteFile(filepath.Join(d, "schema.cue"), txt, 0o644)
		return pipeInput{Kind: "cue", Path: d, Package: am.Pkg}, txt
	}
}

func firstStruct(am *amSchema) *amObject {
	for _, o := range am.Objs {
		if o.T.K == "struct" {
			return o
		}
	}
	return nil
}

// c03Pipeline builds one workload under dir and returns the pipeline file + output root.
func c03Pipeline(dir string, rng *RNG, idx int) (string, string, map[string]any) {
	formats := []string{"jsonschema", "openapi", "cue"}
	shuffle(rng, formats)
	npk := rng.Range(2, 4)
	var inputs []pipeInput
	var ams []*amSchema
	desc := map[string]any{}
	if idx%4 == 3 {
		// the intersection workload must not be lost to an unrelated loader error: one JSON Schema package next to the fixed one
		npk = 1
		formats = []string{"jsonschema"}
	}
	for i := 0; i < npk; i++ {
		format := formats[i%len(formats)]
		caps := capsFor(format)
		am := genAM(newRNG("c03am", rng.U64(), i), caps, []string{"pka", "pkb", "pkc", "pkd"}[i], "general")
		in, _ := materializeAM(filepath.Join(dir, "in"), am, format)
		inputs = append(inputs, in)
		ams = append(ams, am)
	}
	// every 4th workload: an `allOf` with an inline object holding inline enums/structs (an intersection with an
	// inline struct branch), generated for the languages that support intersections — passes of one language must
	// not leak into the schemas of the languages processed after it (the language loop ranges over a Go map)
	intersections := idx%4 == 3
	if intersections {
		p := filepath.Join(dir, "in", "pkx.json")
		_ = os.MkdirAll(filepath.Dir(p), 0o755)
		_ = os.WriteFile(p, []byte(c03IntersectionSchema), 0o644)
		inputs = append(inputs, pipeInput{Kind: "jsonschema", Path: p, Package: "pkx"})
	}
	// schema transformations: aimed at order-relevant code (several hints, case-variant default keys)
	var passes strings.Builder
	passes.WriteString("passes:\n")
	for _, am := range ams {
		o := firstStruct(am)
		if o == nil {
			continue
		}
		fmt.Fprintf(&passes, "  - hint_object:\n      object: %s.%s\n      hints:\n        zeta: 1\n        alpha: two\n        mid: true\n        omega: [1, 2]\n", am.Pkg, o.Name)
		f := o.T.Fields[0]
		if f.T.K == "string" || f.T.K == "int" || f.T.K == "bool" {
			val := map[string]string{"string": "'set'", "int": "3", "bool": "true"}[f.T.K]
			fmt.Fprintf(&passes, "  - fields_set_default:\n      defaults:\n        %s.%s.%s: %s\n", am.Pkg, o.Name, f.Name, val)
			if rng.Chance(0.5) {
				// a second key that designates the same field (matching is case-insensitive), other value
				val2 := map[string]string{"string": "'other'", "int": "4", "bool": "false"}[f.T.K]
				fmt.Fprintf(&passes, "        %s.%s.%s: %s\n", am.Pkg, strings.ToLower(o.Name), strings.ToUpper(f.Name), val2)
			}
		}
		if rng.Chance(0.5) {
			fmt.Fprintf(&passes, "  - duplicate_object:\n      object: %s.%s\n      as: %s.%sCopy\n", am.Pkg, o.Name, am.Pkg, o.Name)
		}
	}
	passesFile := filepath.Join(dir, "passes.yaml")
	_ = os.WriteFile(passesFile, []byte(passes.String()), 0o644)
	// veneers
	venDir := filepath.Join(dir, "veneers")
	_ = os.MkdirAll(venDir, 0o755)
	for vi, am := range ams {
		o := firstStruct(am)
		if o == nil {
			continue
		}
		var v strings.Builder
		lang := "all"
		if vi%2 == 1 {
			lang = "python"
		}
		fmt.Fprintf(&v, "language: %s\npackage: %s\nbuilders:\n  - duplicate:\n      by_object: %s\n      as: %sTwin\noptions:\n  - add_comments:\n      by_name: %s.%s\n      comments: ['veneer comment']\n", lang, am.Pkg, o.Name, o.Name, o.Name, o.T.Fields[0].Name)
		_ = os.WriteFile(filepath.Join(venDir, fmt.Sprintf("%s.yaml", am.Pkg)), []byte(v.String()), 0o644)
	}
	outRoot := filepath.Join(dir, "out")
	cfg := pipeCfg{
		Inputs: inputs, Types: true, Builders: true, Converters: rng.Chance(0.7), APIReference: rng.Chance(0.7), Debug: idx%2 == 0,
		SchemaPasses: []string{"%__config_dir%/passes.yaml"}, VeneerDirs: []string{"%veneers%"},
		OutDir: "%root%/%l",
		// `goroot` refers to another parameter: substitution order is observable in Go import paths
		Params: map[string]string{"root": filepath.Join(dir, "out"), "veneers": filepath.Join(dir, "veneers"), "goroot": "example.com/%org%/gen", "org": "acme", "zorg": "%org%-z"},
	}
	langs := append([]string(nil), langNames...)
	shuffle(rng, langs)
	nl := rng.Range(3, 7)
	if intersections {
		langs = []string{"go", "typescript", "java", "jsonschema", "openapi"}
		shuffle(rng, langs)
		nl = len(langs)
	}
	for _, l := range langs[:nl] {
		flags := defaultLangFlags(l)
		if l == "go" {
			flags["package_root"] = "%goroot%"
			if intersections {
				// the Go helpers (equality, validation, strict decoding) do not support intersections: types only
				flags = map[string]any{"package_root": "%goroot%"}
			}
		}
		if l == "typescript" && rng.Bool() {
			flags["enums_as_union_types"] = true
		}
		cfg.Langs = append(cfg.Langs, langCfg{Name: l, Flags: flags})
	}
	desc["languages"] = langs[:nl]
	desc["packages"] = npk
	desc["debug"] = cfg.Debug
	pf := filepath.Join(dir, "pipeline.yaml")
	_ = os.WriteFile(pf, []byte(cfg.YAML()), 0o644)
	return pf, outRoot, desc
}

// c03Artefacts runs the pipeline once and returns artefact name → digest.
func c03Artefacts(pipelineFile, outRoot string) (map[string]string, error) {
	arts := map[string]string{}
	var rerr error
	pv, stack := guard(func() {
		p, err := codegen.PipelineFromFile(pipelineFile, codegen.Parameters(nil))
		if err != nil {
			rerr = err
			return
		}
		schemas, err := p.LoadSchemas(context.Background())
		if err != nil {
			rerr = fmt.Errorf("LoadSchemas: %w", err)
			return
		}
		arts["ir/types"] = sha(mustJSON(schemas))
		langs, err := p.OutputLanguages()
		if err != nil {
			rerr = err
			return
		}
		names := make([]string, 0, len(langs))
		for n := range langs {
			names = append(names, n)
		}
		sort.Strings(names)
		for _, n := range names {
			ctx, err := p.ContextForLanguage(langs[n], schemas)
			if err != nil {
				arts["ir/context/"+n] = "error:" + maskMsg(err.Error())
				continue
			}
			arts["ir/context-types/"+n] = sha(mustJSON(ctx.Schemas))
			arts["ir/context-builders/"+n] = sha(mustJSON(ctx.Builders))
		}
	})
	if pv != nil {
		return nil, fmt.Errorf("panic: %v @%s", pv, topCogFrame(stack))
	}
	if rerr != nil {
		return nil, rerr
	}
	res := runPipelineFile(pipelineFile, outRoot)
	if res.Panic != nil {
		return nil, fmt.Errorf("panic: %v @%s", res.Panic, topCogFrame(res.Stack))
	}
	if res.Err != nil {
		arts["run"] = "error:" + maskMsg(res.Err.Error())
		if os.Getenv("VERIF_DEBUG") != "" {
			fmt.Println("DEBUG c03 run error:", truncate(res.Err.Error(), 400))
		}
		return arts, nil
	}
	for p, b := range res.Files {
		arts["file/"+p] = sha(string(b))
	}
	arts["fileset"] = sha(strings.Join(res.Files.paths(), "\n"))
	return arts, nil
}

var pkgRe = regexp.MustCompile(`pk[a-d]`)

func artefactKind(name string) string {
	name = pkgRe.ReplaceAllString(name, "PKG")
	// collapse object-specific file names: keep directory + extension
	if strings.HasPrefix(name, "file/") {
		parts := strings.Split(name, "/")
		lang := ""
		if len(parts) > 1 {
			lang = parts[1]
		}
		base := parts[len(parts)-1]
		ext := filepath.Ext(base)
		cls := "other"
		lower := strings.ToLower(name)
		switch {
		case strings.Contains(lower, "converter"):
			cls = "converter"
		case strings.Contains(lower, "builder"):
			cls = "builder"
		case strings.Contains(lower, "types") || strings.Contains(lower, "models"):
			cls = "types"
		case strings.Contains(lower, "docs") || ext == ".md":
			cls = "docs"
		case strings.Contains(lower, "cog/") || strings.Contains(lower, "runtime"):
			cls = "runtime"
		}
		return "file/" + lang + "/" + cls + ext
	}
	return name
}

func checkC03(r *Run) {
	nPipes := r.n(6, 40)
	K := r.n(24, 96)
	P := r.n(3, 8)
	r.Rule = fmt.Sprintf("pipelines over 2–4 packages (JSON Schema/OpenAPI/CUE inputs from the AM generator), 3–7 languages, types+builders(+converters, api reference), debug on/off, passes with multi-hint hint_object / fields_set_default / duplicate_object, veneers per package, nested parameters; each run %d× in-process and %d× in child processes; every artefact digest must be unique. distinct_nontrivial = distinct (pipeline, run) executions that produced ≥1 file", K, P)
	self, _ := os.Executable()
	canaryOrders := map[string]int{}
	for pi := 0; pi <= nPipes; pi++ {
		rng := newRNG("C03", r.Seed, pi)
		dir, _ := os.MkdirTemp(scratchDir(), "c03-")
		var pf, outRoot string
		var desc map[string]any
		if pi == nPipes {
			pf, outRoot, desc = c03MeetingKeysPipeline(dir)
		} else {
			pf, outRoot, desc = c03Pipeline(dir, rng, pi)
		}
		digests := map[string]map[string]int{} // artefact → digest → count
		runs := 0
		record := func(arts map[string]string) {
			runs++
			for a, d := range arts {
				if digests[a] == nil {
					digests[a] = map[string]int{}
				}
				digests[a][d]++
			}
		}
		var firstErr error
		for k := 0; k < K; k++ {
			// canary: the runtime's map-order freedom is actually exercised
			canary := map[string]int{"a": 1, "b": 2}
			for key := range canary {
				canaryOrders[key]++
				break
			}
			arts, err := c03Artefacts(pf, outRoot)
			r.Eval()
			if err != nil {
				firstErr = err
				break
			}
			record(arts)
			if len(arts) > 3 {
				r.Distinct(fmt.Sprintf("p%d-k%d", pi, k))
			}
		}
		if firstErr != nil {
			// errors/panics are other properties' business; but they must at least be deterministic
			r.Count("pipelines_failing(skipped)", 1)
			if os.Getenv("VERIF_DEBUG") != "" {
				fmt.Println("DEBUG c03 pipeline error:", firstErr)
			}
			_ = os.RemoveAll(dir)
			continue
		}
		for p := 0; p < P; p++ {
			cmd := exec.Command(self, "c03child", pf, outRoot)
			cmd.Env = os.Environ()
			out, err := cmd.Output()
			r.Eval()
			if err != nil {
				r.CaseInconclusive("child process failed: " + err.Error())
				continue
			}
			var arts map[string]string
			if json.Unmarshal([]byte(strings.TrimSpace(string(out))), &arts) != nil {
				r.CaseInconclusive("child output unreadable: " + truncate(string(out), 200))
				continue
			}
			record(arts)
			r.Distinct(fmt.Sprintf("p%d-child%d", pi, p))
		}
		r.Count("pipelines_compared", 1)
		r.Count("artefacts_compared", len(digests))
		var unstable []string
		for a, ds := range digests {
			total := 0
			for _, n := range ds {
				total += n
			}
			if len(ds) > 1 || total != runs {
				unstable = append(unstable, a)
			}
		}
		sort.Strings(unstable)
		seenKinds := map[string]bool{}
		for _, a := range unstable {
			kind := artefactKind(a)
			if seenKinds[kind] {
				continue
			}
			seenKinds[kind] = true
			yaml, _ := os.ReadFile(pf)
			r.Violation("nondeterministic/"+kind, fmt.Sprintf("artefact %s has %d distinct contents over %d runs of the same pipeline (%v)", a, len(digests[a]), runs, desc), map[string]any{"pipeline": string(yaml), "artefact": a, "digests": digests[a], "desc": desc})
		}
		if pi < 2 {
			r.Sample(map[string]any{"pipeline": desc, "artefacts": len(digests), "runs": runs})
		}
		_ = os.RemoveAll(dir)
	}
	r.Extra["canary_first_key_counts"] = canaryOrders
	if len(canaryOrders) < 2 {
		r.Inconclusive("map-order canary never flipped: the runtime's iteration-order freedom was not exercised")
	}
	r.Assumptions = append(r.Assumptions, "Go randomises the start of every map range; repetition (in-process) and fresh processes (hash seed) are the only way to explore those orders")
}

// c03MeetingKeysPipeline: a fixed workload whose configuration maps hold entries that meet — a `rename_options`
// map where one entry's new name is another entry's old name, a `packages_import_map` with two spellings of the same
// package — next to a cross-package reference. Whatever cog decides for them, it must decide it the same way each run.
func c03MeetingKeysPipeline(dir string) (string, string, map[string]any) {
	in := filepath.Join(dir, "in")
	_ = os.MkdirAll(filepath.Join(in, "common_types"), 0o755)
	_ = os.MkdirAll(filepath.Join(in, "dashboard"), 0o755)
	_ = os.MkdirAll(filepath.Join(dir, "veneers"), 0o755)
	_ = os.WriteFile(filepath.Join(in, "common_types", "common.cue"), []byte("package common_types\n\n#DataSourceRef: {\n\tuid: string\n\ttype?: string\n}\n"), 0o644)
	_ = os.WriteFile(filepath.Join(in, "dashboard", "dashboard.cue"), []byte(`package dashboard

import "example.com/lib/common_types"

#LineConfig: {
	mode?:  string
	style?: string
	width?: int64
	fill?:  string
}

#Panel: {
	title:       string
	datasource:  common_types.#DataSourceRef
	lineConfig?: #LineConfig
}
`), 0o644)
	_ = os.WriteFile(filepath.Join(dir, "veneers", "dashboard.yaml"), []byte(`language: all
package: dashboard
builders:
  - merge_into:
      destination: Panel
      source: LineConfig
      under_path: lineConfig
      rename_options:
        mode: style
        style: fill
        fill: lineFill
options: ~
`), 0o644)
	outRoot := filepath.Join(dir, "out")
	yaml := fmt.Sprintf(`inputs:
  - cue:
      entrypoint: %s
      package: common_types
  - cue:
      entrypoint: %s
      package: dashboard
      cue_imports: ['%s:example.com/lib/common_types']
transformations:
  builders:
    - %s
output:
  directory: %s
  types: true
  builders: true
  languages:
    - typescript:
        packages_import_map:
          common_types: '@acme/common-types'
          commonTypes: '@acme/legacy-common'
          CommonTypes: '@acme/older-common'
    - go:
        package_root: example.com/acme/gen
    - python: {}
    - java: {}
    - php: {}
`, yq(filepath.Join(in, "common_types")), yq(filepath.Join(in, "dashboard")), filepath.Join(in, "common_types"), yq(filepath.Join(dir, "veneers")), yq(filepath.Join(outRoot, "%l")))
	pf := filepath.Join(dir, "pipeline.yaml")
	_ = os.WriteFile(pf, []byte(yaml), 0o644)
	return pf, outRoot, map[string]any{"workload": "configuration maps whose entries meet (rename_options chain, packages_import_map spellings)", "languages": []string{"typescript", "go", "python", "java", "php"}, "packages": 2}
}

const c03IntersectionSchema = `{"$schema":"http://json-schema.org/draft-07/schema#","definitions":{
 "Base":{"type":"object","additionalProperties":false,"properties":{"id":{"type":"string"}},"required":["id"]},
 "Alert":{"allOf":[{"$ref":"#/definitions/Base"},{"type":"object","properties":{"severity":{"enum":["low","high"],"type":"string"},"meta":{"type":"object","properties":{"k":{"type":"string"},"mode":{"enum":["x","y"],"type":"string"}}},"levels":{"type":"array","items":{"enum":["a","b"],"type":"string"}},"maybe":{"oneOf":[{"type":"string"},{"type":"null"}]}}}]},
 "Holder":{"type":"object","additionalProperties":false,"properties":{"alert":{"$ref":"#/definitions/Alert"}}}
},"type":"object","properties":{"holder":{"$ref":"#/definitions/Holder"}}}`
