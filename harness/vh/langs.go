package main

import (
	"github.com/grafana/cog/internal/jennies/golang"
	"github.com/grafana/cog/internal/jennies/java"
	"github.com/grafana/cog/internal/jennies/jsonschema"
	"github.com/grafana/cog/internal/jennies/openapi"
	"github.com/grafana/cog/internal/jennies/php"
	"github.com/grafana/cog/internal/jennies/python"
	"github.com/grafana/cog/internal/jennies/typescript"
	"github.com/grafana/cog/internal/languages"
)

var langNames = []string{"go", "java", "jsonschema", "openapi", "php", "python", "typescript"}

func newLanguage(name string) languages.Language {
	switch name {
	case "go":
		return golang.New(golang.Config{PackageRoot: "example.com/gen", GenerateJSONMarshaller: true, GenerateStrictUnmarshaller: true, GenerateEqual: true, GenerateValidate: true})
	case "java":
		return java.New(java.Config{ProjectPath: ".", PackagePath: "gen"})
	case "jsonschema":
		return jsonschema.New(jsonschema.Config{})
	case "openapi":
		return openapi.New(openapi.Config{})
	case "php":
		return php.New(php.Config{NamespaceRoot: "Gen"})
	case "python":
		return python.New(python.Config{GenerateJSONMarshaller: true})
	case "typescript":
		return typescript.New(typescript.Config{})
	}
	return nil
}
