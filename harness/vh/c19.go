package main

import (
	"encoding/json"
	"fmt"
	"sort"
	"strings"
	"sync"

	"github.com/grafana/cog/internal/orderedmap"
)

// C19 — orderedmap behaves like a first-insertion-order map.
// Monitor shape: history + executable sequential model at the API boundary, exhaustive over all
// histories up to a length bound, plus long random histories. Structural invariant (H10) at the end
// of every history.

func init() { register("C19", checkC19) }

type omPair struct {
	K string
	V int
}
type omModel []omPair

func (m omModel) clone() omModel { return append(omModel(nil), m...) }
func (m omModel) idx(k string) int {
	for i, p := range m {
		if p.K == k {
			return i
		}
	}
	return -1
}
func (m omModel) set(k string, v int) omModel {
	if i := m.idx(k); i >= 0 {
		m[i].V = v
		return m
	}
	return append(m, omPair{k, v})
}
func (m omModel) remove(k string) omModel {
	i := m.idx(k)
	if i < 0 {
		return m
	}
	out := append(omModel(nil), m[:i]...)
	return append(out, m[i+1:]...)
}
func (m omModel) json() string {
	var sb strings.Builder
	sb.WriteByte('{')
	for i, p := range m {
		if i > 0 {
			sb.WriteByte(',')
		}
		kb, _ := json.Marshal(p.K)
		sb.Write(kb)
		sb.WriteByte(':')
		fmt.Fprintf(&sb, "%d", p.V)
	}
	sb.WriteByte('}')
	return sb.String()
}

type omOp struct {
	Kind string // set remove filterV filterK map sortAsc sortDesc jsonFresh jsonInto
	K    string
	V    int
}

func (o omOp) String() string {
	switch o.Kind {
	case "set":
		return fmt.Sprintf("Set(%s,%d)", o.K, o.V)
	case "remove":
		return fmt.Sprintf("Remove(%s)", o.K)
	}
	return o.Kind
}

type omState struct {
	m     *orderedmap.Map[string, int]
	model omModel
	// maps that were derived from / are ancestors of the current one; they must keep matching their
	// own model whatever happens to the current map afterwards (no shared structure).
	retired []omRetired
}

type omRetired struct {
	m     *orderedmap.Map[string, int]
	model omModel
	how   string
}

// compact JSON comparison: MarshalJSON uses json.Encoder (which appends newlines); compare by
// decoding tokens in order instead of bytes.
func jsonPairsInOrder(raw []byte) ([]omPair, error) {
	dec := json.NewDecoder(strings.NewReader(string(raw)))
	t, err := dec.Token()
	if err != nil {
		return nil, err
	}
	if d, ok := t.(json.Delim); !ok || d != '{' {
		return nil, fmt.Errorf("not an object")
	}
	var out []omPair
	for dec.More() {
		kt, err := dec.Token()
		if err != nil {
			return nil, err
		}
		k, ok := kt.(string)
		if !ok {
			return nil, fmt.Errorf("non-string key")
		}
		var v int
		if err := dec.Decode(&v); err != nil {
			return nil, err
		}
		out = append(out, omPair{k, v})
	}
	if _, err := dec.Token(); err != nil {
		return nil, err
	}
	return out, nil
}

// observe compares every observer of the map with the model. Returns "" or a mismatch class + detail.
func omObserve(m *orderedmap.Map[string, int], model omModel, keys []string) (string, string) {
	if m.Len() != len(model) {
		return "len", fmt.Sprintf("Len()=%d model=%d", m.Len(), len(model))
	}
	for _, k := range keys {
		i := model.idx(k)
		if m.Has(k) != (i >= 0) {
			return "has", fmt.Sprintf("Has(%s)=%v model=%v", k, m.Has(k), i >= 0)
		}
		want := 0
		if i >= 0 {
			want = model[i].V
		}
		if m.Get(k) != want {
			return "get", fmt.Sprintf("Get(%s)=%d model=%d", k, m.Get(k), want)
		}
	}
	var it []omPair
	m.Iterate(func(k string, v int) { it = append(it, omPair{k, v}) })
	if len(it) != len(model) {
		return "iterate", fmt.Sprintf("Iterate yields %v model %v", it, model)
	}
	for i := range it {
		if it[i] != model[i] {
			return "iterate", fmt.Sprintf("Iterate yields %v model %v", it, model)
		}
	}
	vals := m.Values()
	if len(vals) != len(model) {
		return "values", fmt.Sprintf("Values()=%v model %v", vals, model)
	}
	for i := range vals {
		if vals[i] != model[i].V {
			return "values", fmt.Sprintf("Values()=%v model %v", vals, model)
		}
	}
	for i := range model {
		if m.At(i) != model[i].V {
			return "at", fmt.Sprintf("At(%d)=%d model=%d", i, m.At(i), model[i].V)
		}
	}
	raw, err := m.MarshalJSON()
	if err != nil {
		return "marshal", "MarshalJSON error: " + err.Error()
	}
	if !json.Valid(raw) {
		return "marshal", "MarshalJSON produced invalid JSON: " + string(raw)
	}
	pairs, err := jsonPairsInOrder(raw)
	if err != nil {
		return "marshal", "MarshalJSON output unreadable: " + err.Error()
	}
	if len(pairs) != len(model) {
		return "marshal", fmt.Sprintf("MarshalJSON=%s model=%s", raw, model.json())
	}
	for i := range pairs {
		if pairs[i] != model[i] {
			return "marshal", fmt.Sprintf("MarshalJSON=%s model=%s", raw, model.json())
		}
	}
	if err := m.VerifInvariant(); err != nil {
		return "invariant", err.Error()
	}
	return "", ""
}

// apply performs op on the state (both implementation and model). It returns a mismatch class/detail
// for side conditions (derived maps must leave the receiver untouched).
func omApply(st *omState, op omOp, keys []string) (string, string) {
	switch op.Kind {
	case "set":
		st.m.Set(op.K, op.V)
		st.model = st.model.clone().set(op.K, op.V)
	case "remove":
		st.m.Remove(op.K)
		st.model = st.model.clone().remove(op.K)
	case "filterV", "filterK", "filterKeep":
		pred := func(k string, v int) bool { return v%2 == 1 }
		if op.Kind != "filterV" {
			pred = func(k string, v int) bool { return k != "b" }
		}
		derived := st.m.Filter(pred)
		var nm omModel
		for _, p := range st.model {
			if pred(p.K, p.V) {
				nm = append(nm, p)
			}
		}
		if c, d := omObserve(st.m, st.model, keys); c != "" {
			return "receiver-changed/" + c, d
		}
		if op.Kind == "filterKeep" {
			if c, d := omObserve(derived, nm, keys); c != "" {
				return c, d
			}
			st.retired = append(st.retired, omRetired{derived, nm, "result-of-Filter"})
			break
		}
		st.retired = append(st.retired, omRetired{st.m, st.model, "receiver-of-Filter"})
		st.m, st.model = derived, nm
	case "map", "mapKeep":
		f := func(k string, v int) int { return 1 - v }
		derived := st.m.Map(f)
		nm := st.model.clone()
		for i := range nm {
			nm[i].V = f(nm[i].K, nm[i].V)
		}
		if c, d := omObserve(st.m, st.model, keys); c != "" {
			return "receiver-changed/" + c, d
		}
		if op.Kind == "mapKeep" {
			if c, d := omObserve(derived, nm, keys); c != "" {
				return c, d
			}
			st.retired = append(st.retired, omRetired{derived, nm, "result-of-Map"})
			break
		}
		st.retired = append(st.retired, omRetired{st.m, st.model, "receiver-of-Map"})
		st.m, st.model = derived, nm
	case "sortAsc", "sortDesc", "sortTies":
		less := func(i, j string) bool { return i < j }
		if op.Kind == "sortDesc" {
			less = func(i, j string) bool { return i > j }
		}
		if op.Kind == "sortTies" {
			// orders by the first letter only: keys sharing it are equivalent and must keep their relative order
			less = func(i, j string) bool { return i[0] < j[0] }
		}
		st.m.Sort(less)
		nm := st.model.clone()
		sort.SliceStable(nm, func(i, j int) bool { return less(nm[i].K, nm[j].K) })
		st.model = nm
	case "jsonFresh":
		raw, err := st.m.MarshalJSON()
		if err != nil {
			return "marshal", err.Error()
		}
		fresh := orderedmap.New[string, int]()
		if err := fresh.UnmarshalJSON(raw); err != nil {
			return "unmarshal", fmt.Sprintf("UnmarshalJSON(%s): %v", raw, err)
		}
		st.m = fresh
	case "jsonInto":
		raw, err := st.m.MarshalJSON()
		if err != nil {
			return "marshal", err.Error()
		}
		target := orderedmap.New[string, int]()
		target.Set("c", 9)
		target.Set("a", 9)
		nm := omModel{{"c", 9}, {"a", 9}}
		if err := target.UnmarshalJSON(raw); err != nil {
			return "unmarshal", fmt.Sprintf("UnmarshalJSON(%s): %v", raw, err)
		}
		for _, p := range st.model {
			nm = nm.set(p.K, p.V)
		}
		st.m, st.model = target, nm
	case "jsonZero":
		// decoding into a zero-value Map (what encoding/json does for a struct field)
		raw, err := st.m.MarshalJSON()
		if err != nil {
			return "marshal", err.Error()
		}
		var zero orderedmap.Map[string, int]
		if err := json.Unmarshal(raw, &zero); err != nil {
			return "unmarshal", fmt.Sprintf("json.Unmarshal(%s): %v", raw, err)
		}
		st.m = &zero
	}
	return "", ""
}

func omOps(keys []string, vals []int) []omOp {
	var ops []omOp
	for _, k := range keys {
		for _, v := range vals {
			ops = append(ops, omOp{Kind: "set", K: k, V: v})
		}
	}
	for _, k := range keys {
		ops = append(ops, omOp{Kind: "remove", K: k})
	}
	for _, kind := range []string{"filterV", "filterK", "filterKeep", "map", "mapKeep", "sortAsc", "sortDesc", "jsonFresh", "jsonInto", "jsonZero"} {
		ops = append(ops, omOp{Kind: kind})
	}
	return ops
}

func histString(h []omOp) string {
	parts := make([]string, len(h))
	for i, o := range h {
		parts[i] = o.String()
	}
	return strings.Join(parts, "; ")
}

// runHistory replays a history from an empty map; observers are evaluated after the last operation
// (every proper prefix is itself an enumerated history). Returns key, detail ("" if fine).
func omRunHistory(h []omOp, keys []string, observeEvery bool) (string, string, omModel) {
	st := &omState{m: orderedmap.New[string, int]()}
	var key, detail string
	for i, op := range h {
		pv, stack := guard(func() {
			if c, d := omApply(st, op, keys); c != "" {
				key, detail = "mismatch/"+c+"/after-"+op.Kind, d
			}
		})
		if pv != nil {
			return "panic/" + op.Kind + "/" + panicClass(pv) + "@" + topCogFrame(stack), fmt.Sprintf("%v", pv), st.model
		}
		if key != "" {
			return key, detail, st.model
		}
		if observeEvery || i == len(h)-1 {
			pv, stack := guard(func() {
				if c, d := omObserve(st.m, st.model, keys); c != "" {
					key, detail = "mismatch/"+c+"/after-"+op.Kind, d
					return
				}
				for _, old := range st.retired {
					if c, d := omObserve(old.m, old.model, keys); c != "" {
						key, detail = "aliasing/"+old.how+"/"+c, "a map that is no longer operated on changed: "+d
						return
					}
				}
			})
			if pv != nil {
				return "panic/observe-after-" + op.Kind + "/" + panicClass(pv) + "@" + topCogFrame(stack), fmt.Sprintf("%v", pv), st.model
			}
			if key != "" {
				return key, detail, st.model
			}
		}
	}
	return "", "", st.model
}

func checkC19(r *Run) {
	keys := []string{"a", "b", "c"}
	ops := omOps(keys, []int{0, 1})
	L := r.n(5, 6)
	r.Rule = fmt.Sprintf("exhaustive: every history of length 1..%d over %d operations (Set×6, Remove×3, Filter×3, Map×2, Sort×2, JSON round-trip into fresh/non-empty/zero-value map) on keys {a,b,c}, values {0,1}; after the last operation of each history all observers (Len, Has, Get, Iterate, Values, At, MarshalJSON, structural invariant) are compared with a slice-of-pairs model; plus random histories of length<=200 over 6 keys observed after every operation. distinct_nontrivial = distinct histories of length>=2", L, len(ops))

	type res struct {
		n, nontrivial int
		states        map[string]struct{}
	}
	var wg sync.WaitGroup
	results := make([]res, len(ops))
	for first := range ops {
		wg.Add(1)
		go func(first int) {
			defer wg.Done()
			loc := res{states: map[string]struct{}{}}
			h := make([]omOp, 0, L)
			var rec func()
			rec = func() {
				if len(h) > 0 {
					key, detail, model := omRunHistory(h, keys, false)
					loc.n++
					if len(h) >= 2 {
						loc.nontrivial++
					}
					loc.states[model.json()] = struct{}{}
					if key != "" {
						r.Violation(key, "history: "+histString(h)+"\n"+detail, map[string]any{"history": histString(h)})
					}
				}
				if len(h) == L {
					return
				}
				for _, op := range ops {
					h = append(h, op)
					rec()
					h = h[:len(h)-1]
				}
			}
			h = append(h, ops[first])
			rec()
			results[first] = loc
		}(first)
	}
	wg.Wait()
	states := map[string]struct{}{}
	total, nontrivial := 0, 0
	for _, x := range results {
		total += x.n
		nontrivial += x.nontrivial
		for s := range x.states {
			states[s] = struct{}{}
		}
	}
	r.mu.Lock()
	r.Evaluations += total
	r.mu.Unlock()
	r.Count("exhaustive_histories", total)
	r.Count("distinct_model_states_reached", len(states))
	// distinct histories: all enumerated histories are pairwise distinct by construction
	r.DistinctAdd(nontrivial)
	r.Exhaustive = true
	r.Extra["exhaustive_bound"] = fmt.Sprintf("all histories up to length %d", L)

	// random long histories
	keys6 := []string{"a", "b", "c", "d", "e", "f"}
	ops6 := omOps(keys6, []int{0, 1, 2, 3})
	nRand := r.n(300, 20000)
	for c := 0; c < nRand; c++ {
		rng := newRNG("C19", r.Seed, c)
		n := rng.Range(5, 200)
		h := make([]omOp, n)
		for i := range h {
			// bias towards set/remove so that maps stay populated
			if rng.Chance(0.6) {
				h[i] = ops6[rng.Intn(len(keys6)*4+len(keys6))]
			} else {
				h[i] = pick(rng, ops6)
			}
		}
		key, detail, _ := omRunHistory(h, keys6, true)
		r.Eval()
		r.Distinct(histString(h))
		if key != "" {
			r.Violation(key, "history: "+histString(h)+"\n"+detail, map[string]any{"history": histString(h)})
		}
		if c < 2 {
			r.Sample(map[string]any{"random_history_prefix": histString(h[:min(12, len(h))]), "length": n})
		}
	}
	// wide maps (up to 24 live keys) with a comparator that ties distinct keys: stability of Sort
	var keys24 []string
	for _, p := range []string{"a", "b", "c"} {
		for i := 0; i < 8; i++ {
			keys24 = append(keys24, fmt.Sprintf("%s%d", p, i))
		}
	}
	ops24 := append(omOps(keys24, []int{0, 1}), omOp{Kind: "sortTies"}, omOp{Kind: "sortTies"}, omOp{Kind: "sortTies"})
	nWide := r.n(200, 6000)
	for c := 0; c < nWide; c++ {
		rng := newRNG("C19w", r.Seed, c)
		n := rng.Range(30, 120)
		h := make([]omOp, n)
		for i := range h {
			switch {
			case rng.Chance(0.7):
				h[i] = omOp{Kind: "set", K: pick(rng, keys24), V: rng.Intn(2)}
			case rng.Chance(0.3):
				h[i] = omOp{Kind: "sortTies"}
			default:
				h[i] = pick(rng, ops24)
			}
		}
		key, detail, _ := omRunHistory(h, keys24, true)
		r.Eval()
		r.Distinct(histString(h))
		if key != "" {
			r.Violation(key, "history: "+histString(h)+"\n"+detail, map[string]any{"history": histString(h)})
		}
	}
	r.Count("wide_random_histories", nWide)
	r.Sample(map[string]any{"exhaustive_example": "Set(a,0); Set(b,1); Remove(a); sortDesc; jsonInto"})
	r.Count("random_histories", nRand)
	r.Assumptions = append(r.Assumptions, "model: slice of (key,value) pairs in first-insertion order; Sort is stable; JSON decode = Set per member in document order")
}
