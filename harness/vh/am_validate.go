package main

import (
	"bytes"
	"encoding/json"
	"fmt"

	"cuelang.org/go/cue"
	"cuelang.org/go/cue/cuecontext"
	"github.com/getkin/kin-openapi/openapi3"
	jsonschema "github.com/santhosh-tekuri/jsonschema/v5"
)

// Reference validators: the schema language's own validator, used by the harness independently of
// cog's parsers. A document is "accepted" only if the validator of its source format says so.

type refValidator interface {
	Validate(obj string, doc []byte) error
}

// --- JSON Schema -------------------------------------------------------------------------

type jsValidator struct {
	comp  *jsonschema.Compiler
	cache map[string]*jsonschema.Schema
}

func newJSValidator(schema []byte) (*jsValidator, error) {
	comp := jsonschema.NewCompiler()
	comp.AssertFormat = true
	if err := comp.AddResource("schema.json", bytes.NewReader(schema)); err != nil {
		return nil, err
	}
	if _, err := comp.Compile("schema.json"); err != nil {
		return nil, err
	}
	return &jsValidator{comp: comp, cache: map[string]*jsonschema.Schema{}}, nil
}

func (v *jsValidator) Validate(obj string, doc []byte) error {
	sch, ok := v.cache[obj]
	if !ok {
		var err error
		sch, err = v.comp.Compile("schema.json#/definitions/" + obj)
		if err != nil {
			return fmt.Errorf("validator: cannot compile definition %s: %w", obj, err)
		}
		v.cache[obj] = sch
	}
	dec := json.NewDecoder(bytes.NewReader(doc))
	dec.UseNumber()
	var val any
	if err := dec.Decode(&val); err != nil {
		return err
	}
	return sch.Validate(val)
}

// --- OpenAPI -----------------------------------------------------------------------------

type oaValidator struct {
	doc *openapi3.T
}

func newOAValidator(schema []byte) (*oaValidator, error) {
	loader := openapi3.NewLoader()
	doc, err := loader.LoadFromData(schema)
	if err != nil {
		return nil, err
	}
	return &oaValidator{doc: doc}, nil
}

func (v *oaValidator) Validate(obj string, doc []byte) error {
	ref, ok := v.doc.Components.Schemas[obj]
	if !ok || ref.Value == nil {
		return fmt.Errorf("validator: no schema %s", obj)
	}
	var val any
	if err := json.Unmarshal(doc, &val); err != nil {
		return err
	}
	return ref.Value.VisitJSON(val, openapi3.EnableFormatValidation(), openapi3.MultiErrors())
}

// --- CUE ---------------------------------------------------------------------------------

type cueValidator struct {
	ctx  *cue.Context
	root cue.Value
}

func newCueValidator(schema []byte) (*cueValidator, error) {
	ctx := cuecontext.New()
	root := ctx.CompileBytes(schema)
	if err := root.Err(); err != nil {
		return nil, err
	}
	return &cueValidator{ctx: ctx, root: root}, nil
}

func (v *cueValidator) Validate(obj string, doc []byte) error {
	def := v.root.LookupPath(cue.ParsePath("#" + obj))
	if err := def.Err(); err != nil {
		return fmt.Errorf("validator: %w", err)
	}
	val := v.ctx.CompileBytes(doc)
	if err := val.Err(); err != nil {
		return err
	}
	u := def.Unify(val)
	return u.Validate(cue.Concrete(true))
}

func newValidator(format string, schema []byte) (refValidator, error) {
	switch format {
	case "jsonschema":
		return newJSValidator(schema)
	case "openapi":
		return newOAValidator(schema)
	case "cue":
		return newCueValidator(schema)
	}
	return nil, fmt.Errorf("unknown format %s", format)
}
