package main

import (
	"encoding/json"
	"fmt"
	"sort"
	"strings"

	"github.com/grafana/cog/internal/ast"
)

// Independent IR walkers (they do not use cog's visitor): reference positions, dangling references,
// reference closure, deep copies through JSON-free reflection, shrinking of failing IRs.

type refPos struct {
	Kind   string // ref constant_ref mapping entrypoint entrypoint_type hint_mapping hint_ref
	Where  string // pkg.Object + position path
	Pkg    string
	Target string
}

// walkTypeRefs calls cb for every reference position inside t, including the ones cog's shared
// visitor skips (map index types, hints holding the original disjunction of a rewritten struct).
func walkTypeRefs(t ast.Type, where string, cb func(refPos), depth int) {
	if depth > 60 {
		return
	}
	switch t.Kind {
	case ast.KindRef:
		if t.Ref != nil {
			cb(refPos{"ref", where, t.Ref.ReferredPkg, t.Ref.ReferredType})
		}
	case ast.KindConstantRef:
		if t.ConstantReference != nil {
			cb(refPos{"constant_ref", where, t.ConstantReference.ReferredPkg, t.ConstantReference.ReferredType})
		}
	case ast.KindArray:
		if t.Array != nil {
			walkTypeRefs(t.Array.ValueType, where+"[]", cb, depth+1)
		}
	case ast.KindMap:
		if t.Map != nil {
			walkTypeRefs(t.Map.IndexType, where+"{key}", cb, depth+1)
			walkTypeRefs(t.Map.ValueType, where+"{}", cb, depth+1)
		}
	case ast.KindStruct:
		if t.Struct != nil {
			for _, f := range t.Struct.Fields {
				walkTypeRefs(f.Type, where+"."+f.Name, cb, depth+1)
			}
		}
	case ast.KindDisjunction:
		if t.Disjunction != nil {
			walkDisjunctionRefs(*t.Disjunction, where, "mapping", cb, depth)
		}
	case ast.KindIntersection:
		if t.Intersection != nil {
			for i, b := range t.Intersection.Branches {
				walkTypeRefs(b, fmt.Sprintf("%s&%d", where, i), cb, depth+1)
			}
		}
	}
	for _, hint := range []string{ast.HintDisjunctionOfScalars, ast.HintDiscriminatedDisjunctionOfRefs} {
		if h, ok := t.Hints[hint]; ok {
			switch d := h.(type) {
			case ast.DisjunctionType:
				walkDisjunctionRefs(d, where+"#hint", "hint_mapping", cb, depth)
			case *ast.DisjunctionType:
				if d != nil {
					walkDisjunctionRefs(*d, where+"#hint", "hint_mapping", cb, depth)
				}
			}
		}
	}
}

func walkDisjunctionRefs(d ast.DisjunctionType, where, mappingKind string, cb func(refPos), depth int) {
	for i, b := range d.Branches {
		walkTypeRefs(b, fmt.Sprintf("%s|%d", where, i), cb, depth+1)
	}
	// mapping targets are bare type names: they are looked up in the packages of the branch
	// references and in the package holding the disjunction (encoded as a |-separated list).
	pkgs := map[string]bool{}
	if i := strings.Index(where, "."); i > 0 {
		pkgs[where[:i]] = true
	} else if i := strings.Index(where, "#"); i > 0 {
		pkgs[where[:i]] = true
	}
	for _, b := range d.Branches {
		if b.Kind == ast.KindRef && b.Ref != nil {
			pkgs[b.Ref.ReferredPkg] = true
		}
	}
	for _, k := range sortedKeys(d.DiscriminatorMapping) {
		target := d.DiscriminatorMapping[k]
		if target == "" {
			continue
		}
		cb(refPos{mappingKind, where + "~" + k, strings.Join(sortedKeys(pkgs), "|"), target})
	}
}

func schemaRefs(schemas ast.Schemas, cb func(refPos)) {
	for _, s := range schemas {
		if s == nil {
			continue
		}
		if s.EntryPoint != "" {
			cb(refPos{"entrypoint", s.Package + "#entrypoint", s.Package, s.EntryPoint})
		}
		walkTypeRefs(s.EntryPointType, s.Package+"#entrypoint_type", func(p refPos) {
			p.Kind = "entrypoint_type"
			cb(p)
		}, 0)
		if s.Objects == nil {
			continue
		}
		s.Objects.Iterate(func(_ string, o ast.Object) {
			walkTypeRefs(o.Type, s.Package+"."+o.Name, cb, 0)
		})
	}
}

func hasObject(schemas ast.Schemas, pkg, name string) bool {
	for _, s := range schemas {
		if s != nil && s.Package == pkg && s.Objects != nil && s.Objects.Has(name) {
			return true
		}
	}
	return false
}

func hasPackage(schemas ast.Schemas, pkg string) bool {
	for _, s := range schemas {
		if s != nil && s.Package == pkg {
			return true
		}
	}
	return false
}

// danglingRefs returns the reference positions that point into a *loaded* package but name an
// object that does not exist there.
func danglingRefs(schemas ast.Schemas) []refPos {
	var out []refPos
	schemaRefs(schemas, func(p refPos) {
		if p.Pkg == "" {
			return
		}
		anyLoaded, resolved := false, false
		for _, pkg := range strings.Split(p.Pkg, "|") {
			if hasPackage(schemas, pkg) {
				anyLoaded = true
				if hasObject(schemas, pkg, p.Target) {
					resolved = true
				}
			}
		}
		if anyLoaded && !resolved {
			out = append(out, p)
		}
	})
	return out
}

func refsIntoUnloadedPackages(schemas ast.Schemas) bool {
	bad := false
	schemaRefs(schemas, func(p refPos) {
		if p.Pkg != "" && !strings.Contains(p.Pkg, "|") && !hasPackage(schemas, p.Pkg) {
			bad = true
		}
	})
	return bad
}

// refClosure: the given root objects of pkg plus everything they reference, directly or indirectly.
func refClosure(schemas ast.Schemas, pkg string, roots []string) map[string]bool {
	seen := map[string]bool{}
	var queue []string
	for _, r := range roots {
		queue = append(queue, pkg+"."+r)
	}
	for len(queue) > 0 {
		cur := queue[0]
		queue = queue[1:]
		if seen[cur] {
			continue
		}
		parts := strings.SplitN(cur, ".", 2)
		var obj *ast.Object
		for _, s := range schemas {
			if s.Package == parts[0] && s.Objects.Has(parts[1]) {
				o := s.Objects.Get(parts[1])
				obj = &o
			}
		}
		if obj == nil {
			continue
		}
		seen[cur] = true
		walkTypeRefs(obj.Type, cur, func(p refPos) {
			for _, pkg := range strings.Split(p.Pkg, "|") {
				queue = append(queue, pkg+"."+p.Target)
			}
		}, 0)
	}
	return seen
}

// cloneSchemas makes an independent copy without relying on cog's DeepCopy (JSON round trip would
// lose dynamic types; we rebuild through the exported constructors instead).
func cloneSchemas(schemas ast.Schemas) ast.Schemas {
	out := make(ast.Schemas, 0, len(schemas))
	for _, s := range schemas {
		ns := ast.NewSchema(s.Package, s.Metadata)
		ns.EntryPoint = s.EntryPoint
		ns.EntryPointType = cloneType(s.EntryPointType)
		s.Objects.Iterate(func(_ string, o ast.Object) {
			ns.AddObject(cloneObject(o))
		})
		out = append(out, ns)
	}
	return out
}

func cloneObject(o ast.Object) ast.Object {
	return ast.Object{
		Name: o.Name, Comments: append([]string(nil), o.Comments...), Type: cloneType(o.Type),
		SelfRef: ast.RefType{ReferredPkg: o.SelfRef.ReferredPkg, ReferredType: o.SelfRef.ReferredType}, PassesTrail: append([]string(nil), o.PassesTrail...),
	}
}

func cloneAny(v any) any {
	switch x := v.(type) {
	case []any:
		l := make([]any, len(x))
		for i, e := range x {
			l[i] = cloneAny(e)
		}
		return l
	case map[string]any:
		m := make(map[string]any, len(x))
		for k, e := range x {
			m[k] = cloneAny(e)
		}
		return m
	case ast.Type:
		return cloneType(x)
	case ast.DisjunctionType:
		d := cloneDisjunction(x)
		return d
	}
	return v
}

func cloneDisjunction(d ast.DisjunctionType) ast.DisjunctionType {
	nd := ast.DisjunctionType{Discriminator: d.Discriminator}
	for _, b := range d.Branches {
		nd.Branches = append(nd.Branches, cloneType(b))
	}
	if d.DiscriminatorMapping != nil {
		nd.DiscriminatorMapping = map[string]string{}
		for k, v := range d.DiscriminatorMapping {
			nd.DiscriminatorMapping[k] = v
		}
	}
	return nd
}

func cloneType(t ast.Type) ast.Type {
	n := ast.Type{Kind: t.Kind, Nullable: t.Nullable, Default: cloneAny(t.Default), PassesTrail: append([]string(nil), t.PassesTrail...)}
	if t.Hints != nil {
		n.Hints = ast.JenniesHints{}
		for k, v := range t.Hints {
			n.Hints[k] = cloneAny(v)
		}
	}
	if t.Disjunction != nil {
		d := cloneDisjunction(*t.Disjunction)
		n.Disjunction = &d
	}
	if t.Array != nil {
		n.Array = &ast.ArrayType{ValueType: cloneType(t.Array.ValueType)}
	}
	if t.Enum != nil {
		e := ast.EnumType{}
		for _, v := range t.Enum.Values {
			e.Values = append(e.Values, ast.EnumValue{Type: cloneType(v.Type), Name: v.Name, Value: v.Value})
		}
		n.Enum = &e
	}
	if t.Map != nil {
		n.Map = &ast.MapType{IndexType: cloneType(t.Map.IndexType), ValueType: cloneType(t.Map.ValueType)}
	}
	if t.Struct != nil {
		st := ast.StructType{}
		for _, f := range t.Struct.Fields {
			st.Fields = append(st.Fields, ast.StructField{Name: f.Name, Comments: append([]string(nil), f.Comments...), Type: cloneType(f.Type), Required: f.Required, PassesTrail: append([]string(nil), f.PassesTrail...)})
		}
		n.Struct = &st
	}
	if t.Ref != nil {
		n.Ref = &ast.RefType{ReferredPkg: t.Ref.ReferredPkg, ReferredType: t.Ref.ReferredType}
	}
	if t.ConstantReference != nil {
		n.ConstantReference = &ast.ConstantReferenceType{ReferredPkg: t.ConstantReference.ReferredPkg, ReferredType: t.ConstantReference.ReferredType, ReferenceValue: t.ConstantReference.ReferenceValue}
	}
	if t.Scalar != nil {
		sc := ast.ScalarType{ScalarKind: t.Scalar.ScalarKind, Value: t.Scalar.Value}
		for _, c := range t.Scalar.Constraints {
			sc.Constraints = append(sc.Constraints, ast.TypeConstraint{Op: c.Op, Args: append([]any(nil), c.Args...)})
		}
		n.Scalar = &sc
	}
	if t.Intersection != nil {
		in := ast.IntersectionType{}
		for _, b := range t.Intersection.Branches {
			in.Branches = append(in.Branches, cloneType(b))
		}
		n.Intersection = &in
	}
	if t.ComposableSlot != nil {
		n.ComposableSlot = &ast.ComposableSlotType{Variant: t.ComposableSlot.Variant}
	}
	return n
}

// shrinkSchemas greedily removes objects, fields and union branches while `fails` keeps returning
// true and the IR stays free of dangling references. Bounded number of oracle calls.
func shrinkSchemas(schemas ast.Schemas, fails func(ast.Schemas) bool, budget int) ast.Schemas {
	cur := cloneSchemas(schemas)
	calls := 0
	try := func(cand ast.Schemas) bool {
		if calls >= budget {
			return false
		}
		if len(danglingRefs(cand)) > 0 || refsIntoUnloadedPackages(cand) {
			return false
		}
		calls++
		ok := false
		guard(func() { ok = fails(cloneSchemas(cand)) })
		return ok
	}
	changed := true
	for changed && calls < budget {
		changed = false
		// drop whole schemas
		for i := 0; i < len(cur) && len(cur) > 1; i++ {
			cand := append(append(ast.Schemas{}, cur[:i]...), cur[i+1:]...)
			if try(cand) {
				cur = cand
				changed = true
				i--
			}
		}
		// drop objects
		for si := range cur {
			var names []string
			cur[si].Objects.Iterate(func(k string, _ ast.Object) { names = append(names, k) })
			for _, name := range names {
				cand := cloneSchemas(cur)
				cand[si].Objects.Remove(name)
				if cand[si].EntryPoint == name {
					cand[si].EntryPoint = ""
					cand[si].EntryPointType = ast.Type{}
				}
				if try(cand) {
					cur = cand
					changed = true
				}
			}
		}
		// drop struct fields (top level of objects)
		for si := range cur {
			var names []string
			cur[si].Objects.Iterate(func(k string, _ ast.Object) { names = append(names, k) })
			for _, name := range names {
				o := cur[si].Objects.Get(name)
				if o.Type.Kind != ast.KindStruct || o.Type.Struct == nil {
					continue
				}
				for fi := len(o.Type.Struct.Fields) - 1; fi >= 0; fi-- {
					cand := cloneSchemas(cur)
					co := cand[si].Objects.Get(name)
					if fi >= len(co.Type.Struct.Fields) {
						continue
					}
					co.Type.Struct.Fields = append(co.Type.Struct.Fields[:fi:fi], co.Type.Struct.Fields[fi+1:]...)
					cand[si].Objects.Set(name, co)
					if try(cand) {
						cur = cand
						changed = true
					}
				}
			}
		}
	}
	return cur
}

// irSummary renders schemas compactly for replay files and descriptions.
func irSummary(schemas ast.Schemas) string {
	var sb strings.Builder
	for _, s := range schemas {
		fmt.Fprintf(&sb, "package %s", s.Package)
		if s.EntryPoint != "" {
			fmt.Fprintf(&sb, " (entrypoint %s)", s.EntryPoint)
		}
		sb.WriteString("\n")
		s.Objects.Iterate(func(_ string, o ast.Object) {
			fmt.Fprintf(&sb, "  %s = %s\n", o.Name, typeSummary(o.Type, 0))
		})
	}
	return sb.String()
}

func typeSummary(t ast.Type, depth int) string {
	if depth > 8 {
		return "…"
	}
	s := ""
	switch t.Kind {
	case ast.KindScalar:
		if t.Scalar != nil {
			s = string(t.Scalar.ScalarKind)
			if t.Scalar.Value != nil {
				s += fmt.Sprintf("(=%v)", t.Scalar.Value)
			}
			if len(t.Scalar.Constraints) > 0 {
				s += "+constraints"
			}
		}
	case ast.KindRef:
		if t.Ref != nil {
			s = "ref(" + t.Ref.ReferredPkg + "." + t.Ref.ReferredType + ")"
		}
	case ast.KindConstantRef:
		if t.ConstantReference != nil {
			s = fmt.Sprintf("constref(%s.%s=%v)", t.ConstantReference.ReferredPkg, t.ConstantReference.ReferredType, t.ConstantReference.ReferenceValue)
		}
	case ast.KindArray:
		if t.Array != nil {
			s = "[]" + typeSummary(t.Array.ValueType, depth+1)
		}
	case ast.KindMap:
		if t.Map != nil {
			s = "map[" + typeSummary(t.Map.IndexType, depth+1) + "]" + typeSummary(t.Map.ValueType, depth+1)
		}
	case ast.KindStruct:
		if t.Struct != nil {
			var fs []string
			for _, f := range t.Struct.Fields {
				opt := ""
				if !f.Required {
					opt = "?"
				}
				fs = append(fs, f.Name+opt+": "+typeSummary(f.Type, depth+1))
			}
			s = "{" + strings.Join(fs, ", ") + "}"
		}
	case ast.KindEnum:
		if t.Enum != nil {
			var vs []string
			for _, v := range t.Enum.Values {
				vs = append(vs, fmt.Sprintf("%s=%v", v.Name, v.Value))
			}
			s = "enum(" + strings.Join(vs, ",") + ")"
		}
	case ast.KindDisjunction:
		if t.Disjunction != nil {
			var bs []string
			for _, b := range t.Disjunction.Branches {
				bs = append(bs, typeSummary(b, depth+1))
			}
			s = "(" + strings.Join(bs, " | ") + ")"
			if t.Disjunction.Discriminator != "" {
				s += "@" + t.Disjunction.Discriminator
			}
			if len(t.Disjunction.DiscriminatorMapping) > 0 {
				b, _ := json.Marshal(t.Disjunction.DiscriminatorMapping)
				s += string(b)
			}
		}
	case ast.KindIntersection:
		if t.Intersection != nil {
			var bs []string
			for _, b := range t.Intersection.Branches {
				bs = append(bs, typeSummary(b, depth+1))
			}
			s = "(" + strings.Join(bs, " & ") + ")"
		}
	case ast.KindComposableSlot:
		s = "slot"
	default:
		s = "<" + string(t.Kind) + ">"
	}
	if t.Nullable {
		s += "?"
	}
	if t.Default != nil {
		s += fmt.Sprintf(" default=%v", t.Default)
	}
	if len(t.Hints) > 0 {
		ks := make([]string, 0, len(t.Hints))
		for k := range t.Hints {
			ks = append(ks, k)
		}
		sort.Strings(ks)
		s += " hints" + fmt.Sprint(ks)
	}
	return s
}

// irCycleShape classifies the reference graph of an IR: "structless-cycle" when some object reaches itself through
// references, arrays, maps, unions and intersections only (a type of infinite size: `A = [...A]`, `A = B | null; B = A`),
// "unresolvable-refs" when a reference designates an object that no schema holds, "struct-cycle" when every cycle passes
// through a struct member (ordinary recursive data: a tree), "acyclic" otherwise; the first that applies.
// Safe on ill-formed IRs (kinds without bodies).
func irCycleShape(schemas ast.Schemas) string {
	structless := map[string][]string{}
	all := map[string][]string{}
	var walk func(t ast.Type, owner string, throughStruct bool, depth int)
	walk = func(t ast.Type, owner string, throughStruct bool, depth int) {
		if depth > 60 {
			return
		}
		switch t.Kind {
		case ast.KindRef:
			if t.Ref != nil {
				target := t.Ref.ReferredPkg + "." + t.Ref.ReferredType
				all[owner] = append(all[owner], target)
				if !throughStruct {
					structless[owner] = append(structless[owner], target)
				}
			}
		case ast.KindArray:
			if t.Array != nil {
				walk(t.Array.ValueType, owner, throughStruct, depth+1)
			}
		case ast.KindMap:
			if t.Map != nil {
				walk(t.Map.IndexType, owner, throughStruct, depth+1)
				walk(t.Map.ValueType, owner, throughStruct, depth+1)
			}
		case ast.KindStruct:
			if t.Struct != nil {
				for _, f := range t.Struct.Fields {
					walk(f.Type, owner, true, depth+1)
				}
			}
		case ast.KindDisjunction:
			if t.Disjunction != nil {
				for _, b := range t.Disjunction.Branches {
					walk(b, owner, throughStruct, depth+1)
				}
			}
		case ast.KindIntersection:
			if t.Intersection != nil {
				for _, b := range t.Intersection.Branches {
					walk(b, owner, throughStruct, depth+1)
				}
			}
		}
	}
	for _, s := range schemas {
		if s == nil || s.Objects == nil {
			continue
		}
		s.Objects.Iterate(func(_ string, o ast.Object) {
			walk(o.Type, s.Package+"."+o.Name, false, 0)
		})
	}
	cyclic := func(g map[string][]string) bool {
		colour := map[string]int{}
		var visit func(n string) bool
		visit = func(n string) bool {
			colour[n] = 1
			for _, m := range g[n] {
				if colour[m] == 1 || (colour[m] == 0 && visit(m)) {
					return true
				}
			}
			colour[n] = 2
			return false
		}
		for _, n := range sortedKeys(g) {
			if colour[n] == 0 && visit(n) {
				return true
			}
		}
		return false
	}
	unresolvable := false
	for _, targets := range all {
		for _, t := range targets {
			pkg, name, _ := strings.Cut(t, ".")
			if !hasObject(schemas, pkg, name) {
				unresolvable = true
			}
		}
	}
	switch {
	case cyclic(structless):
		return "structless-cycle"
	case unresolvable:
		return "unresolvable-refs"
	case cyclic(all):
		return "struct-cycle"
	}
	return "acyclic"
}
