package main

import (
	"encoding/json"
	"fmt"
	"regexp"
	"sort"
	"strconv"
	"strings"
)

// ---------------------------------------------------------------------------------------
// JSON Schema (draft-07)

func (s *amSchema) renderJSONSchema() []byte {
	defs := map[string]any{}
	props := map[string]any{}
	for _, o := range s.Objs {
		defs[o.Name] = jsType(o.T, true)
		props[lowerFirst(o.Name)] = map[string]any{"$ref": "#/definitions/" + o.Name}
	}
	doc := map[string]any{
		"$schema":              "http://json-schema.org/draft-07/schema#",
		"definitions":          defs,
		"type":                 "object",
		"properties":           props,
		"additionalProperties": false,
	}
	b, _ := json.MarshalIndent(doc, "", " ")
	return b
}

func jsType(t *amType, closed bool) map[string]any {
	m := jsBase(t, closed)
	if t.Default != nil {
		m["default"] = t.Default
	}
	if t.Nullable {
		if name, isStr := m["type"].(string); isStr && t.NullStyle != "" && len(m) == 1 {
			if t.NullStyle == "first" {
				m["type"] = []any{"null", name}
			} else {
				m["type"] = []any{name, "null"}
			}
			return m
		}
		if t.K == "union" {
			// `a | b | null` as one flat oneOf
			m["oneOf"] = append(m["oneOf"].([]any), map[string]any{"type": "null"})
			return m
		}
		return map[string]any{"oneOf": []any{m, map[string]any{"type": "null"}}}
	}
	return m
}

func jsBase(t *amType, closed bool) map[string]any {
	switch t.K {
	case "bool":
		return map[string]any{"type": "boolean"}
	case "string":
		m := map[string]any{"type": "string"}
		if t.MinLen >= 0 {
			m["minLength"] = t.MinLen
		}
		if t.MaxLen >= 0 {
			m["maxLength"] = t.MaxLen
		}
		return m
	case "bytes":
		return map[string]any{"type": "string"}
	case "datetime":
		return map[string]any{"type": "string", "format": "date-time"}
	case "any":
		return map[string]any{}
	case "int", "float":
		m := map[string]any{"type": "integer"}
		if t.K == "float" {
			m["type"] = "number"
		}
		if t.Lo != nil {
			if t.Lo.Excl {
				m["exclusiveMinimum"] = t.Lo.V
			} else {
				m["minimum"] = t.Lo.V
			}
		}
		if t.Hi != nil {
			if t.Hi.Excl {
				m["exclusiveMaximum"] = t.Hi.V
			} else {
				m["maximum"] = t.Hi.V
			}
		}
		return m
	case "enum":
		if t.EnumI != nil {
			vs := make([]any, len(t.EnumI))
			for i, v := range t.EnumI {
				vs[i] = v
			}
			return map[string]any{"type": "integer", "enum": vs}
		}
		vs := make([]any, len(t.EnumS))
		for i, v := range t.EnumS {
			vs[i] = v
		}
		return map[string]any{"type": "string", "enum": vs}
	case "const":
		switch c := t.Const.(type) {
		case string:
			return map[string]any{"type": "string", "const": c}
		case bool:
			return map[string]any{"type": "boolean", "const": c}
		default:
			if strings.HasPrefix(t.Width, "float") {
				// an integral constant of a number-typed member: `{"type": "number", "const": 39}`
				return map[string]any{"type": "number", "const": c}
			}
			return map[string]any{"type": "integer", "const": c}
		}
	case "array":
		return map[string]any{"type": "array", "items": jsType(t.Elem, closed)}
	case "map":
		return map[string]any{"type": "object", "additionalProperties": jsType(t.Elem, closed)}
	case "ref":
		return map[string]any{"$ref": "#/definitions/" + t.Ref}
	case "struct":
		props := map[string]any{}
		var req []any
		for _, f := range t.Fields {
			props[f.Name] = jsType(f.T, closed)
			if f.Required {
				req = append(req, f.Name)
			}
		}
		m := map[string]any{"type": "object", "properties": props}
		if closed {
			m["additionalProperties"] = false
		}
		if len(req) > 0 {
			m["required"] = req
		}
		return m
	case "union":
		var br []any
		for _, b := range t.Branches {
			br = append(br, jsType(b, closed))
		}
		return map[string]any{"oneOf": br}
	}
	return map[string]any{}
}

// ---------------------------------------------------------------------------------------
// OpenAPI 3.0

func (s *amSchema) renderOpenAPI() []byte {
	schemas := map[string]any{}
	for _, o := range s.Objs {
		schemas[o.Name] = oaType(o.T)
	}
	doc := map[string]any{
		"openapi":    "3.0.3",
		"info":       map[string]any{"title": s.Pkg, "version": "1.0.0"},
		"paths":      map[string]any{},
		"components": map[string]any{"schemas": schemas},
	}
	b, _ := json.MarshalIndent(doc, "", " ")
	return b
}

func oaType(t *amType) map[string]any {
	m := oaBase(t)
	if t.Default != nil {
		m["default"] = t.Default
	}
	if t.Nullable {
		m["nullable"] = true
	}
	return m
}

func oaBase(t *amType) map[string]any {
	switch t.K {
	case "bool":
		return map[string]any{"type": "boolean"}
	case "string":
		m := map[string]any{"type": "string"}
		if t.MinLen >= 0 {
			m["minLength"] = t.MinLen
		}
		if t.MaxLen >= 0 {
			m["maxLength"] = t.MaxLen
		}
		return m
	case "bytes":
		return map[string]any{"type": "string", "format": "byte"}
	case "datetime":
		return map[string]any{"type": "string", "format": "date-time"}
	case "any":
		return map[string]any{}
	case "int", "float":
		m := map[string]any{"type": "integer"}
		if t.K == "float" {
			m["type"] = "number"
			switch t.Width {
			case "float32":
				m["format"] = "float"
			case "float64":
				m["format"] = "double"
			}
		} else if t.Width != "" {
			m["format"] = t.Width
		}
		if t.Lo != nil {
			m["minimum"] = t.Lo.V
			if t.Lo.Excl {
				m["exclusiveMinimum"] = true
			}
		}
		if t.Hi != nil {
			m["maximum"] = t.Hi.V
			if t.Hi.Excl {
				m["exclusiveMaximum"] = true
			}
		}
		return m
	case "enum":
		if t.EnumI != nil {
			vs := make([]any, len(t.EnumI))
			for i, v := range t.EnumI {
				vs[i] = v
			}
			return map[string]any{"type": "integer", "enum": vs}
		}
		vs := make([]any, len(t.EnumS))
		for i, v := range t.EnumS {
			vs[i] = v
		}
		return map[string]any{"type": "string", "enum": vs}
	case "const":
		return map[string]any{"type": "string", "pattern": "^" + fmt.Sprint(t.Const) + "$"}
	case "array":
		return map[string]any{"type": "array", "items": oaType(t.Elem)}
	case "map":
		return map[string]any{"type": "object", "additionalProperties": oaType(t.Elem)}
	case "ref":
		return map[string]any{"$ref": "#/components/schemas/" + t.Ref}
	case "struct":
		props := map[string]any{}
		var req []any
		for _, f := range t.Fields {
			props[f.Name] = oaType(f.T)
			if f.Required {
				req = append(req, f.Name)
			}
		}
		m := map[string]any{"type": "object", "properties": props, "additionalProperties": false}
		if len(req) > 0 {
			m["required"] = req
		}
		return m
	case "union":
		var br []any
		for _, b := range t.Branches {
			br = append(br, oaType(b))
		}
		m := map[string]any{"oneOf": br}
		if t.Disc != "" && t.MaxLen == -2 {
			mapping := map[string]any{}
			for _, b := range t.Branches {
				mapping[lowerFirst(b.Ref)] = "#/components/schemas/" + b.Ref
			}
			m["discriminator"] = map[string]any{"propertyName": t.Disc, "mapping": mapping}
		} else if t.Disc != "" {
			m["discriminator"] = map[string]any{"propertyName": t.Disc}
		}
		return m
	}
	return map[string]any{}
}

// ---------------------------------------------------------------------------------------
// CUE

func (s *amSchema) renderCUE() []byte {
	var body strings.Builder
	for _, o := range s.Objs {
		fmt.Fprintf(&body, "#%s: %s\n\n", o.Name, cueType(o.T, 0, true))
	}
	var sb strings.Builder
	fmt.Fprintf(&sb, "package %s\n\n", s.Pkg)
	if strings.Contains(body.String(), "strings.M") {
		sb.WriteString("import \"strings\"\n")
	}
	if strings.Contains(body.String(), "time.Time") {
		sb.WriteString("import \"time\"\n")
	}
	sb.WriteString("\n" + body.String())
	return []byte(sb.String())
}

func cueLit(v any) string {
	switch x := v.(type) {
	case string:
		b, _ := json.Marshal(x)
		return string(b)
	case json.Number:
		return string(x)
	case bool:
		return fmt.Sprint(x)
	case []any:
		parts := make([]string, len(x))
		for i, e := range x {
			parts[i] = cueLit(e)
		}
		return "[" + strings.Join(parts, ", ") + "]"
	case map[string]any:
		keys := make([]string, 0, len(x))
		for k := range x {
			keys = append(keys, k)
		}
		sort.Strings(keys)
		parts := make([]string, len(keys))
		for i, k := range keys {
			parts[i] = fmt.Sprintf("%s: %s", k, cueLit(x[k]))
		}
		return "{" + strings.Join(parts, ", ") + "}"
	}
	return fmt.Sprint(v)
}

func cueFloat(v float64) string {
	s := fmt.Sprintf("%v", v)
	if !strings.ContainsAny(s, ".e") {
		s += ".0"
	}
	return s
}

func cueType(t *amType, indent int, top bool) string {
	base := cueBase(t, indent)
	if t.Default != nil {
		switch t.K {
		case "ref":
			if _, isStruct := t.Default.(map[string]any); isStruct {
				// struct reference with partial overrides
				base = fmt.Sprintf("%s | *%s", base, cueLit(t.Default))
			} else {
				// enum reference with a default
				base = fmt.Sprintf("%s & (*%s | _)", base, cueLit(t.Default))
			}
		case "enum":
			// mark the default member
			parts := strings.Split(base, " | ")
			for i, p := range parts {
				if p == cueLit(t.Default) {
					parts[i] = "*" + p
				}
			}
			base = strings.Join(parts, " | ")
		default:
			base = fmt.Sprintf("%s | *%s", base, cueLit(t.Default))
		}
	}
	if t.Nullable {
		base = base + " | null"
	}
	return base
}

func cueBase(t *amType, indent int) string {
	pad := strings.Repeat("\t", indent+1)
	switch t.K {
	case "bool":
		return "bool"
	case "string":
		s := "string"
		if t.MinLen >= 0 {
			s += fmt.Sprintf(" & strings.MinRunes(%d)", t.MinLen)
		}
		if t.MaxLen >= 0 {
			s += fmt.Sprintf(" & strings.MaxRunes(%d)", t.MaxLen)
		}
		return s
	case "bytes":
		return "bytes"
	case "datetime":
		return "time.Time"
	case "any":
		return "_"
	case "int", "float":
		w := t.Width
		if w == "" {
			if t.K == "int" {
				w = "int"
			} else if t.Lo != nil || t.Hi != nil {
				// `number & <1.5` is simplified by CUE to `<1.5`, from which cog cannot infer a width;
				// `float` survives simplification (as in cog's own testdata: `float & >=0 & <=1`)
				w = "float"
			} else {
				w = "number"
			}
		}
		s := w
		lit := func(v float64) string {
			if t.K == "int" {
				return fmt.Sprintf("%d", int64(v))
			}
			return cueFloat(v)
		}
		if t.Lo != nil {
			op := ">="
			if t.Lo.Excl {
				op = ">"
			}
			s += " & " + op + lit(t.Lo.V)
		}
		if t.Hi != nil {
			op := "<="
			if t.Hi.Excl {
				op = "<"
			}
			s += " & " + op + lit(t.Hi.V)
		}
		return s
	case "enum":
		if t.EnumI != nil {
			parts := make([]string, len(t.EnumI))
			names := make([]string, len(t.EnumI))
			for i, v := range t.EnumI {
				parts[i] = fmt.Sprint(v)
				names[i] = fmt.Sprintf("Level%d", i)
			}
			return strings.Join(parts, " | ") + fmt.Sprintf(" @cog(kind=\"enum\",memberNames=\"%s\")", strings.Join(names, "|"))
		}
		parts := make([]string, len(t.EnumS))
		for i, v := range t.EnumS {
			parts[i] = cueLit(v)
		}
		return strings.Join(parts, " | ")
	case "const":
		return cueLit(t.Const)
	case "array":
		return "[..." + cueWrap(t.Elem, indent) + "]"
	case "map":
		return "{[string]: " + cueWrap(t.Elem, indent) + "}"
	case "ref":
		return "#" + t.Ref
	case "struct":
		var sb strings.Builder
		sb.WriteString("{\n")
		for _, f := range t.Fields {
			opt := ""
			if !f.Required {
				opt = "?"
			}
			fmt.Fprintf(&sb, "%s%s%s: %s\n", pad, cueLabel(f.Name), opt, cueType(f.T, indent+1, false))
		}
		sb.WriteString(strings.Repeat("\t", indent) + "}")
		return sb.String()
	case "union":
		parts := make([]string, len(t.Branches))
		for i, b := range t.Branches {
			parts[i] = cueWrap(b, indent)
		}
		return strings.Join(parts, " | ")
	}
	return "_"
}

// cueWrap parenthesises element types that contain top-level operators.
func cueWrap(t *amType, indent int) string {
	s := cueType(t, indent, false)
	if strings.Contains(s, " | ") || strings.Contains(s, " & ") {
		if t.K == "struct" {
			return s
		}
		return "(" + s + ")"
	}
	return s
}

var cuePlainLabelRe = regexp.MustCompile(`^[A-Za-z][A-Za-z0-9_]*$`)

// cueLabel quotes field names that are not plain identifiers (a leading `_` would make the field hidden, `#` a definition).
func cueLabel(name string) string {
	if cuePlainLabelRe.MatchString(name) {
		return name
	}
	return strconv.Quote(name)
}
