package main

import (
	"bufio"
	"bytes"
	"context"
	"encoding/json"
	"fmt"
	"os"
	"os/exec"
	"path/filepath"
	"runtime/debug"
	"sort"
	"strings"
	"sync"
	"syscall"
	"time"

	"github.com/grafana/cog/internal/ast"
	"github.com/grafana/cog/internal/ast/compiler"
	"github.com/grafana/cog/internal/codegen"
	"github.com/grafana/cog/internal/languages"
	"github.com/grafana/cog/internal/veneers/rewrite"
	cogyaml "github.com/grafana/cog/internal/yaml"
)

// C04 — no input or configuration makes cog panic or hang.
// Isolation monitor: worker child processes take cases from a file, journal the case id *before*
// running it, run the real entry point under recover and report {ok|error|panic+top cog frame}.
// A dead worker (fatal error: stack overflow, …) is attributed through the journal; a silent worker is
// killed by a progress watchdog and its case re-run alone before being called a hang.

func init() {
	register("C04", checkC04)
	subcommands["c04worker"] = c04Worker
}

type c04Case struct {
	ID     string `json:"id"`
	Kind   string `json:"kind"`   // schema | ir | passes | veneers | pipeline
	Format string `json:"format"` // jsonschema openapi cue (schema) ; language (ir)
	Class  string `json:"class"`  // input class tag
	Data   string `json:"data"`
	Extra  string `json:"extra,omitempty"`
}

type c04Result struct {
	ID      string `json:"id"`
	Outcome string `json:"outcome"` // ok error panic
	Stage   string `json:"stage"`
	Panic   string `json:"panic,omitempty"`
	Frame   string `json:"frame,omitempty"`
	Err     string `json:"err,omitempty"`
	Millis  int64  `json:"ms"`
}

// ---- worker -----------------------------------------------------------------------------

func c04Worker(args []string) {
	// args: cases.jsonl journal results.jsonl scratchdir
	debug.SetMaxStack(48 << 20)
	f, err := os.Open(args[0])
	if err != nil {
		os.Exit(3)
	}
	journal, _ := os.OpenFile(args[1], os.O_CREATE|os.O_WRONLY|os.O_APPEND, 0o644)
	results, _ := os.OpenFile(args[2], os.O_CREATE|os.O_WRONLY|os.O_APPEND, 0o644)
	scratch := args[3]
	skip := map[string]bool{}
	if len(args) > 4 {
		for _, s := range strings.Split(args[4], ",") {
			skip[s] = true
		}
	}
	sc := bufio.NewScanner(f)
	sc.Buffer(make([]byte, 1<<20), 1<<27)
	for sc.Scan() {
		var c c04Case
		if json.Unmarshal(sc.Bytes(), &c) != nil || skip[c.ID] {
			continue
		}
		fmt.Fprintf(journal, "%s\n", c.ID)
		_ = journal.Sync()
		c04Note = func(note string) {
			fmt.Fprintf(journal, "%s\t%s\n", c.ID, note)
			_ = journal.Sync()
		}
		start := time.Now()
		res := c04RunCase(c, scratch)
		res.Millis = time.Since(start).Milliseconds()
		b, _ := json.Marshal(res)
		results.Write(append(b, '\n'))
	}
}

// c04Note records, in the worker's journal, a fact about the case being run (the shape of the IR it reached), so
// that the parent can tell apart crashes of the same function on structurally different inputs.
var c04Note = func(string) {}

func c04AllLangs(out string) []langCfg {
	var ls []langCfg
	for _, l := range langNames {
		ls = append(ls, langCfg{Name: l, Flags: defaultLangFlags(l)})
	}
	return ls
}

func c04RunCase(c c04Case, scratch string) (res c04Result) {
	res = c04Result{ID: c.ID, Outcome: "ok"}
	stage := "start"
	defer func() {
		if e := recover(); e != nil {
			res.Outcome = "panic"
			res.Stage = stage
			res.Panic = fmt.Sprint(e)
			res.Frame = topCogFrame(string(debug.Stack()))
		}
	}()
	dir, _ := os.MkdirTemp(scratch, "case")
	defer os.RemoveAll(dir)
	fail := func(err error) c04Result {
		res.Outcome = "error"
		res.Stage = stage
		res.Err = truncate(err.Error(), 200)
		return res
	}
	switch c.Kind {
	case "schema":
		var in pipeInput
		switch c.Format {
		case "cue":
			d := filepath.Join(dir, "pk")
			_ = os.MkdirAll(d, 0o755)
			_ = os.WriteFile(filepath.Join(d, "schema.cue"), []byte(c.Data), 0o644)
			in = pipeInput{Kind: "cue", Path: d, Package: "pk"}
		default:
			p := filepath.Join(dir, "pk.json")
			_ = os.WriteFile(p, []byte(c.Data), 0o644)
			in = pipeInput{Kind: c.Format, Path: p, Package: "pk"}
		}
		cfg := pipeCfg{Inputs: []pipeInput{in}, Types: true, Builders: true, Converters: true, APIReference: true, OutDir: filepath.Join(dir, "out", "%l"), Langs: c04AllLangs(dir)}
		pf := filepath.Join(dir, "pipeline.yaml")
		_ = os.WriteFile(pf, []byte(cfg.YAML()), 0o644)
		stage = "parse/" + c.Format
		p, err := codegen.PipelineFromFile(pf, codegen.Parameters(nil))
		if err != nil {
			return fail(err)
		}
		schemas, err := p.LoadSchemas(context.Background())
		if err != nil {
			return fail(err)
		}
		c04Note("shape=" + irCycleShape(schemas))
		return c04Generate(p, schemas, &stage, &res, "")
	case "ir":
		var schemas ast.Schemas
		if err := json.Unmarshal([]byte(c.Data), &schemas); err != nil {
			return fail(err)
		}
		p, err := codegen.NewPipeline()
		if err != nil {
			return fail(err)
		}
		p.Output.Types, p.Output.Builders, p.Output.Converters, p.Output.APIReference = true, true, true, true
		p.Output.Directory = filepath.Join(dir, "out", "%l")
		c04Note("shape=" + irCycleShape(schemas))
		return c04Generate(p, schemas, &stage, &res, c.Format) // Format of an IR case: the one language to generate, "" = all
	case "passes":
		stage = "yaml/passes/load"
		passes, err := cogyaml.NewCompilerLoader().Load(strings.NewReader(c.Data))
		if err != nil {
			return fail(err)
		}
		var schemas ast.Schemas
		if err := json.Unmarshal([]byte(c.Extra), &schemas); err != nil {
			return fail(err)
		}
		c04Note("shape=" + irCycleShape(schemas))
		for i, pass := range passes {
			stage = "yaml/passes/apply/" + passName(pass)
			schemas, err = compiler.Passes{pass}.Process(schemas)
			if err != nil {
				return fail(err)
			}
			_ = i
		}
		// what survives the transformations must still go through a chain and the builder derivation
		stage = "yaml/passes/then-go-chain"
		processed, err := newLanguage("go").CompilerPasses().Process(schemas)
		if err != nil {
			return fail(err)
		}
		stage = "yaml/passes/then-builders"
		_ = (&ast.BuilderGenerator{}).FromAST(processed)
	case "veneers":
		stage = "yaml/veneers/load"
		f := filepath.Join(dir, "v.yaml")
		_ = os.WriteFile(f, []byte(c.Data), 0o644)
		rw, err := cogyaml.NewVeneersLoader().RewriterFrom([]string{f}, rewrite.Config{Debug: true})
		if err != nil {
			return fail(err)
		}
		var schemas ast.Schemas
		if err := json.Unmarshal([]byte(c.Extra), &schemas); err != nil {
			return fail(err)
		}
		c04Note("shape=" + irCycleShape(schemas))
		for _, lang := range []string{"go", "typescript"} {
			stage = "yaml/veneers/chain/" + lang
			processed, err := newLanguage(lang).CompilerPasses().Process(schemas)
			if err != nil {
				return fail(err)
			}
			builders := (&ast.BuilderGenerator{}).FromAST(processed)
			stage = "yaml/veneers/apply/" + lang
			builders, err = rw.ApplyTo(processed, builders, lang)
			if err != nil {
				return fail(err)
			}
			stage = "yaml/veneers/nilchecks+jennies/" + lang
			l := newLanguage(lang)
			ctx, err := languages.GenerateBuilderNilChecks(l, languages.Context{Schemas: processed, Builders: builders})
			if err != nil {
				return fail(err)
			}
			if _, err := l.Jennies(languages.Config{Types: true, Builders: true, Converters: true}).GenerateFS(ctx); err != nil {
				res.Outcome, res.Stage, res.Err = "error", stage, truncate(err.Error(), 200)
			}
		}
	case "pipeline":
		stage = "yaml/pipeline/load"
		pf := filepath.Join(dir, "pipeline.yaml")
		_ = os.WriteFile(pf, []byte(strings.ReplaceAll(c.Data, "@DIR@", dir)), 0o644)
		if c.Extra != "" {
			_ = os.WriteFile(filepath.Join(dir, "schema.json"), []byte(c.Extra), 0o644)
		}
		p, err := codegen.PipelineFromFile(pf, codegen.Parameters(nil))
		if err != nil {
			return fail(err)
		}
		stage = "yaml/pipeline/run"
		if _, err := p.Run(context.Background()); err != nil {
			return fail(err)
		}
	}
	return res
}

func c04Generate(p *codegen.Pipeline, schemas ast.Schemas, stage *string, res *c04Result, only string) c04Result {
	for _, lang := range langNames {
		if only != "" && lang != only {
			continue
		}
		l := newLanguage(lang)
		*stage = "chain/" + lang
		ctx, err := p.ContextForLanguage(l, schemas)
		if err != nil {
			res.Outcome, res.Stage, res.Err = "error", *stage, truncate(err.Error(), 200)
			continue
		}
		*stage = "jennies/" + lang
		if _, err := l.Jennies(languages.Config{Types: true, Builders: true, Converters: true, APIReference: true}).GenerateFS(ctx); err != nil {
			res.Outcome, res.Stage, res.Err = "error", *stage, truncate(err.Error(), 200)
		}
	}
	return *res
}

// ---- case generation --------------------------------------------------------------------

func mutateBytes(rng *RNG, b []byte) []byte {
	out := append([]byte(nil), b...)
	n := rng.Range(1, 3)
	for i := 0; i < n && len(out) > 2; i++ {
		pos := rng.Intn(len(out))
		switch rng.Intn(6) {
		case 0:
			out[pos] ^= byte(1 << uint(rng.Intn(8)))
		case 1:
			out = out[:pos]
		case 2:
			end := min(len(out), pos+rng.Range(1, 30))
			out = append(out[:pos], out[end:]...)
		case 3:
			end := min(len(out), pos+rng.Range(1, 40))
			chunk := append([]byte(nil), out[pos:end]...)
			out = append(out[:pos], append(chunk, out[pos:]...)...)
		case 4:
			out[pos] = "{}[]\":,0n-"[rng.Intn(10)]
		case 5:
			ins := []string{"null", "{}", "[]", "\"\"", "-1", "1e999", "true", "\"$ref\":\"#/definitions/Nope\""}[rng.Intn(8)]
			out = append(out[:pos], append([]byte(ins), out[pos:]...)...)
		}
	}
	return out
}

// mutateJSONTree applies structure-aware mutations to a decoded JSON document.
func mutateJSONTree(rng *RNG, v any, depth int) any {
	replacements := []any{nil, true, json.Number("0"), json.Number("-7"), "", "string", []any{}, map[string]any{}, []any{"a", json.Number("1")}, map[string]any{"type": "object"}, map[string]any{"$ref": "#/definitions/Missing"}}
	switch x := v.(type) {
	case map[string]any:
		keys := sortedKeys(x)
		if len(keys) == 0 {
			return x
		}
		k := keys[rng.Intn(len(keys))]
		switch rng.Intn(7) {
		case 0:
			delete(x, k)
		case 1:
			x[k] = replacements[rng.Intn(len(replacements))]
		case 2:
			// swap in a schema keyword with an odd value
			kw := []string{"type", "enum", "items", "properties", "required", "oneOf", "anyOf", "allOf", "default", "const", "additionalProperties", "$ref", "format", "minimum", "maxLength", "discriminator", "nullable", "pattern"}[rng.Intn(18)]
			x[kw] = replacements[rng.Intn(len(replacements))]
		case 3:
			if s, ok := x["type"].(string); ok {
				_ = s
				x["type"] = []any{"string", "integer", "null", "array", "object", "number", "boolean"}[rng.Intn(7)]
			} else {
				x[k] = mutateJSONTree(rng, x[k], depth+1)
			}
		default:
			x[k] = mutateJSONTree(rng, x[k], depth+1)
		}
		return x
	case []any:
		if len(x) == 0 {
			return append(x, replacements[rng.Intn(len(replacements))])
		}
		i := rng.Intn(len(x))
		switch rng.Intn(4) {
		case 0:
			return append(x[:i:i], x[i+1:]...)
		case 1:
			x[i] = replacements[rng.Intn(len(replacements))]
		default:
			x[i] = mutateJSONTree(rng, x[i], depth+1)
		}
		return x
	default:
		return replacements[rng.Intn(len(replacements))]
	}
}

func mutateCUE(rng *RNG, src string) string {
	tokens := []string{" | null", " | null | null", "?", "#Nope", "[...]", "{...}", "_", "_|_", "*1 | ", " & >=0", " & string", "int & string", "[string]: ", "...", "\"a\" | 1", "@cog(kind=\"enum\")", "@cog(kind=\"enum\",memberNames=\"a\")", "1 | 2 | 3", "time.Time", "strings.MinRunes(-1)", "close({})", "[1, 2]", "null", "bytes", "!=3", ">1 & <0"}
	lines := strings.Split(src, "\n")
	n := rng.Range(1, 3)
	for i := 0; i < n; i++ {
		li := rng.Intn(len(lines))
		l := lines[li]
		if idx := strings.Index(l, ": "); idx > 0 && rng.Chance(0.8) {
			switch rng.Intn(3) {
			case 0:
				lines[li] = l[:idx+2] + tokens[rng.Intn(len(tokens))]
			case 1:
				lines[li] = l + tokens[rng.Intn(len(tokens))]
			case 2:
				lines[li] = l[:idx+2] + strings.TrimSpace(tokens[rng.Intn(len(tokens))]) + " | " + l[idx+2:]
			}
		} else {
			lines[li] = string(mutateBytes(rng, []byte(l)))
		}
	}
	return strings.Join(lines, "\n")
}

// semantic breakers: input shapes found by reading the code (DESIGN appendix D) — all are
// syntactically valid documents of their format.
func c04Breakers() []c04Case {
	js := func(class, body string) c04Case {
		return c04Case{Kind: "schema", Format: "jsonschema", Class: class, Data: `{"$schema":"http://json-schema.org/draft-07/schema#","definitions":{` + body + `},"type":"object","properties":{"a":{"$ref":"#/definitions/A"}}}`}
	}
	oa := func(class, body string) c04Case {
		return c04Case{Kind: "schema", Format: "openapi", Class: class, Data: `{"openapi":"3.0.3","info":{"title":"t","version":"1"},"paths":{},"components":{"schemas":{` + body + `}}}`}
	}
	cue := func(class, body string) c04Case {
		return c04Case{Kind: "schema", Format: "cue", Class: class, Data: "package pk\n\n" + body + "\n"}
	}
	return []c04Case{
		js("tuple-items", `"A":{"type":"array","items":[{"type":"string"},{"type":"integer"}]}`),
		js("enum-bool", `"A":{"enum":[true,false]}`),
		js("enum-float", `"A":{"enum":[1.5,2.5]}`),
		js("enum-mixed", `"A":{"enum":["a",1,null]}`),
		js("enum-null-first", `"A":{"enum":[null,"a"]}`),
		js("enum-empty", `"A":{"enum":[]}`),
		js("enum-with-default", `"A":{"type":"object","properties":{"e":{"enum":[1,2],"default":2}}}`),
		js("default-int", `"A":{"type":"object","properties":{"n":{"type":"integer","default":42}}}`),
		js("default-float-on-int", `"A":{"type":"object","properties":{"n":{"type":"integer","default":1.5}}}`),
		js("default-list", `"A":{"type":"object","properties":{"n":{"type":"array","items":{"type":"integer"},"default":[1,2]}}}`),
		js("default-object", `"A":{"type":"object","properties":{"n":{"type":"object","properties":{"x":{"type":"string"}},"default":{"x":"y"}}}}`),
		js("default-on-ref", `"A":{"type":"object","properties":{"n":{"$ref":"#/definitions/B","default":"x"}}},"B":{"type":"string"}`),
		js("default-wrong-type", `"A":{"type":"object","properties":{"n":{"type":"string","default":5},"b":{"type":"boolean","default":"yes"}}}`),
		js("allOf", `"A":{"allOf":[{"$ref":"#/definitions/B"},{"type":"object","properties":{"x":{"type":"string"}}}]},"B":{"type":"object","properties":{"y":{"type":"integer"}}}`),
		js("allOf-scalars", `"A":{"allOf":[{"type":"string"},{"minLength":1}]}`),
		js("alias-cycle", `"A":{"$ref":"#/definitions/B"},"B":{"$ref":"#/definitions/A"}`),
		js("self-alias", `"A":{"$ref":"#/definitions/A"}`),
		js("oneOf-null-null", `"A":{"type":"object","properties":{"x":{"oneOf":[{"type":"null"},{"type":"null"}]}}}`),
		js("oneOf-single", `"A":{"oneOf":[{"type":"string"}]}`),
		js("oneOf-empty", `"A":{"oneOf":[]}`),
		js("nested-oneOf", `"A":{"oneOf":[{"type":"string"},{"oneOf":[{"type":"boolean"},{"type":"integer"}]}]}`),
		js("const-null", `"A":{"type":"object","properties":{"x":{"const":null}}}`),
		js("const-object", `"A":{"type":"object","properties":{"x":{"const":{"a":1}}}}`),
		js("const-float", `"A":{"type":"object","properties":{"x":{"const":1.5}}}`),
		js("type-list-with-array", `"A":{"type":"object","properties":{"x":{"type":["array","string"]}}}`),
		js("discriminator-non-string", `"A":{"oneOf":[{"$ref":"#/definitions/B"},{"$ref":"#/definitions/C"}]},"B":{"type":"object","properties":{"kind":{"const":1}},"required":["kind"]},"C":{"type":"object","properties":{"kind":{"const":2}},"required":["kind"]}`),
		js("discriminator-bool", `"A":{"oneOf":[{"$ref":"#/definitions/B"},{"$ref":"#/definitions/C"}]},"B":{"type":"object","properties":{"kind":{"const":true}},"required":["kind"]},"C":{"type":"object","properties":{"kind":{"const":false}},"required":["kind"]}`),
		js("union-of-ref-and-scalar", `"A":{"type":"object","properties":{"x":{"oneOf":[{"$ref":"#/definitions/B"},{"type":"string"}]}}},"B":{"type":"object","properties":{"y":{"type":"integer"}}}`),
		js("union-of-refs-to-scalars", `"A":{"oneOf":[{"$ref":"#/definitions/B"},{"$ref":"#/definitions/C"}]},"B":{"type":"string"},"C":{"type":"integer"}`),
		js("union-of-arrays", `"A":{"type":"object","properties":{"x":{"oneOf":[{"type":"array","items":{"type":"string"}},{"type":"array","items":{"type":"integer"}}]}}}`),
		js("empty-property-name", `"A":{"type":"object","properties":{"":{"type":"string"},"9x":{"type":"string"},"a-b":{"type":"string"},"class":{"type":"string"},"self":{"type":"string"}}}`),
		js("map-of-map-of-struct", `"A":{"type":"object","properties":{"m":{"type":"object","additionalProperties":{"type":"object","additionalProperties":{"$ref":"#/definitions/B"}}}}},"B":{"type":"object","properties":{"y":{"type":"integer"}}}`),
		js("pattern-properties", `"A":{"type":"object","patternProperties":{"^x":{"type":"string"}}}`),
		js("deep-nesting", `"A":`+strings.Repeat(`{"type":"array","items":`, 300)+`{"type":"string"}`+strings.Repeat(`}`, 300)),
		oa("enum-without-type", `"A":{"enum":["a","b"]}`),
		oa("enum-number", `"A":{"type":"number","enum":[1.5,2]}`),
		oa("enum-boolean", `"A":{"type":"boolean","enum":[true]}`),
		oa("array-without-items", `"A":{"type":"array"}`),
		oa("bounds-without-type", `"A":{"type":"object","properties":{"x":{"minimum":1,"maximum":5}}}`),
		oa("multipleOf", `"A":{"type":"object","properties":{"x":{"type":"integer","multipleOf":5}}}`),
		oa("discriminator-on-non-struct", `"A":{"oneOf":[{"$ref":"#/components/schemas/B"},{"$ref":"#/components/schemas/C"}],"discriminator":{"propertyName":"kind"}},"B":{"type":"string"},"C":{"type":"integer"}`),
		oa("discriminator-missing-field", `"A":{"oneOf":[{"$ref":"#/components/schemas/B"},{"$ref":"#/components/schemas/C"}],"discriminator":{"propertyName":"nope"}},"B":{"type":"object","properties":{"x":{"type":"string"}}},"C":{"type":"object","properties":{"y":{"type":"string"}}}`),
		oa("discriminator-mapping-refs", `"A":{"oneOf":[{"$ref":"#/components/schemas/B"},{"$ref":"#/components/schemas/C"}],"discriminator":{"propertyName":"kind","mapping":{"b":"#/components/schemas/B","c":"#/components/schemas/C"}}},"B":{"type":"object","required":["kind"],"properties":{"kind":{"type":"string"}}},"C":{"type":"object","required":["kind"],"properties":{"kind":{"type":"string"}}}`),
		oa("discriminator-numeric-const", `"A":{"oneOf":[{"$ref":"#/components/schemas/B"},{"$ref":"#/components/schemas/C"}]},"B":{"type":"object","required":["kind"],"properties":{"kind":{"type":"integer","enum":[1]}}},"C":{"type":"object","required":["kind"],"properties":{"kind":{"type":"integer","enum":[2]}}}`),
		oa("alias-cycle", `"A":{"$ref":"#/components/schemas/B"},"B":{"$ref":"#/components/schemas/A"}`),
		oa("allOf", `"A":{"allOf":[{"$ref":"#/components/schemas/B"},{"type":"object","properties":{"x":{"type":"string"}}}]},"B":{"type":"object","properties":{"y":{"type":"integer"}}}`),
		oa("default-types", `"A":{"type":"object","properties":{"i":{"type":"integer","default":3},"f":{"type":"number","default":1.5},"l":{"type":"array","items":{"type":"integer"},"default":[1]},"o":{"type":"object","properties":{"x":{"type":"string"}},"default":{"x":"y"}},"e":{"type":"string","enum":["a","b"],"default":"b"}}}`),
		oa("nullable-everything", `"A":{"type":"object","nullable":true,"properties":{"b":{"type":"boolean","nullable":true},"a":{"type":"array","nullable":true,"items":{"type":"string","nullable":true}},"r":{"allOf":[{"$ref":"#/components/schemas/B"}],"nullable":true}}},"B":{"type":"object","properties":{"y":{"type":"integer"}}}`),
		oa("no-components", ``),
		cue("null-or-null", `#A: { x: null | null }`),
		cue("closed-list", `#A: { x: [string, string] }`),
		cue("int-enum-without-names", `#A: 1 | 2 | 3`),
		cue("enum-member-count-mismatch", `#A: 1 | 2 | 3 @cog(kind="enum",memberNames="a|b")`),
		cue("enum-empty-names", `#A: "" | "a" | "-" | "+x" | "1"`),
		cue("numeric-string-enum", `#A: "1" | "2" | "-3" @cog(kind="enum")`),
		cue("float-enum", `#A: 1.5 | 2.5 @cog(kind="enum",memberNames="a|b")`),
		cue("bounded-width-both", `#A: { x: float64 & >=1.5 & <=72.25, y: uint8 & >1 & <5 }`),
		cue("neq-bound", `#A: { x: int & !=3, y: int64 & >-5 }`),
		cue("struct-default", `#B: { a: string, b?: int }`+"\n"+`#A: { x: #B | *{a: "z"} }`),
		cue("disjunction-default-struct-ref", `#B: { a: string }`+"\n#C: { c: int }\n"+`#A: { x: #B | #C | *null }`),
		cue("self-alias", `#A: #A`),
		cue("alias-cycle", "#A: #B\n#B: #A"),
		cue("alias-or-null-self", "#A: #A | null"),
		cue("embedded", "#B: { a: string }\n#A: { #B, c: int }"),
		cue("selector-reference", "#B: { inner: { a: string } }\n#A: { x: #B.inner }"),
		cue("let-and-comprehension", "#A: { let X = 3\n x: X\n y: [for i in [1,2] { i }] }"),
		cue("bottom", "#A: { x: string & int }"),
		cue("pattern-and-fields", "#A: { a: string\n [string]: int }"),
		cue("bytes-default", `#A: { x: bytes | *'abc' }`),
		cue("top-level-scalar-fields", "a: 1\nb: \"x\"\nc: [...string]"),
		cue("list-of-lists-default", `#A: { x: [...[...int]] | *[[1]] }`),
		cue("time-in-union", "import \"time\"\n#A: { x: time.Time | int }"),
		cue("constant-ref", "#E: \"a\" | \"b\"\n#A: { x: #E & \"a\", y: #E & \"zzz\" }"),
	}
}

func c04HostileIR(rng *RNG, c int) (ast.Schemas, string) {
	o := defaultIROpts()
	o.Pkgs = rng.Range(1, 3)
	o.Depth = rng.Range(1, 4)
	o.NestedUnions, o.AliasObjects, o.Intersections, o.Slots = true, true, true, rng.Chance(0.3)
	o.UniqueNames = rng.Bool()
	o.NumericEnumNames = true
	schemas, _ := genSchemas(rng, o)
	class := "well-formed"
	if c%2 == 1 {
		// controlled ill-formed variants
		s := schemas[0]
		switch rng.Intn(9) {
		case 0:
			class = "alias-cycle"
			s.AddObject(ast.NewObject(s.Package, "CycA", ast.NewRef(s.Package, "CycB")))
			s.AddObject(ast.NewObject(s.Package, "CycB", ast.NewRef(s.Package, "CycA")))
			s.AddObject(ast.NewObject(s.Package, "UsesCyc", ast.NewStruct(ast.NewStructField("f", ast.NewRef(s.Package, "CycA"), ast.Required()))))
		case 1:
			class = "dangling-ref"
			s.AddObject(ast.NewObject(s.Package, "Dangling", ast.NewStruct(ast.NewStructField("f", ast.NewRef(s.Package, "NoSuchObject"), ast.Required()), ast.NewStructField("g", ast.NewArray(ast.NewRef("nopkg", "X"))))))
			s.AddObject(ast.NewObject(s.Package, "DanglingAlias", ast.NewRef(s.Package, "NoSuchObject")))
		case 2:
			class = "null-or-null"
			s.AddObject(ast.NewObject(s.Package, "Nulls", ast.NewStruct(ast.NewStructField("f", ast.NewDisjunction([]ast.Type{ast.Null(), ast.Null()})))))
		case 3:
			class = "odd-enum-members"
			s.AddObject(ast.NewObject(s.Package, "OddEnum", ast.NewEnum([]ast.EnumValue{{Type: ast.String(), Name: "", Value: ""}, {Type: ast.String(), Name: "-", Value: "-"}, {Type: ast.String(), Name: "+", Value: "+"}})))
			s.AddObject(ast.NewObject(s.Package, "OddIntEnum", ast.NewEnum([]ast.EnumValue{{Type: ast.NewScalar(ast.KindInt64), Name: "", Value: int64(0)}, {Type: ast.NewScalar(ast.KindInt64), Name: "-1", Value: int64(-1)}})))
		case 4:
			class = "empty-collections"
			s.AddObject(ast.NewObject(s.Package, "EmptyEnum", ast.NewEnum(nil)))
			s.AddObject(ast.NewObject(s.Package, "EmptyUnion", ast.NewDisjunction(nil)))
			s.AddObject(ast.NewObject(s.Package, "OneBranch", ast.NewDisjunction([]ast.Type{ast.String()})))
			s.AddObject(ast.NewObject(s.Package, "EmptyStruct", ast.NewStruct()))
		case 5:
			class = "odd-hints"
			t := ast.NewStruct(ast.NewStructField("f", ast.String()))
			t.Hints[ast.HintImplementsVariant] = 3
			t.Hints[ast.HintDisjunctionOfScalars] = "not-a-disjunction"
			s.AddObject(ast.NewObject(s.Package, "OddHints", t))
		case 6:
			class = "discriminator-on-non-struct"
			s.AddObject(ast.NewObject(s.Package, "ScalarA", ast.String()))
			s.AddObject(ast.NewObject(s.Package, "ScalarB", ast.NewScalar(ast.KindInt64)))
			s.AddObject(ast.NewObject(s.Package, "BadDisc", ast.NewDisjunction([]ast.Type{ast.NewRef(s.Package, "ScalarA"), ast.NewRef(s.Package, "ScalarB")}, ast.Discriminator("kind", map[string]string{"a": "ScalarA"}))))
		case 7:
			class = "mismatched-defaults"
			s.AddObject(ast.NewObject(s.Package, "BadDefaults", ast.NewStruct(
				ast.NewStructField("i", ast.NewScalar(ast.KindInt64, ast.Default("text")), ast.Required()),
				ast.NewStructField("s", ast.String(ast.Default(int64(5))), ast.Required()),
				ast.NewStructField("l", ast.NewArray(ast.NewScalar(ast.KindInt64), ast.Default([]any{"a", 1.5})), ast.Required()),
				ast.NewStructField("st", ast.NewRef(s.Package, "EmptyishStruct", ast.Default("scalar-for-struct"))),
				ast.NewStructField("m", ast.NewMap(ast.String(), ast.String(), ast.Default(map[string]any{"k": 1}))),
			)))
			s.AddObject(ast.NewObject(s.Package, "EmptyishStruct", ast.NewStruct(ast.NewStructField("a", ast.String()))))
		case 8:
			class = "kind-without-body"
			s.AddObject(ast.NewObject(s.Package, "NoBody", ast.NewStruct(ast.NewStructField("f", ast.Type{Kind: ast.KindScalar}), ast.NewStructField("g", ast.Type{Kind: ast.KindArray}), ast.NewStructField("h", ast.Type{Kind: ast.KindRef}))))
		}
	}
	return schemas, class
}

func c04YAMLCases(rng *RNG, c int) c04Case {
	o := defaultIROpts()
	o.Pkgs = 1
	o.MaxObjs = 4
	o.Depth = 2
	schemas, _ := genSchemas(rng, o)
	schemas = append(schemas, c17AimSchema("aim"))
	ir := mustJSON(schemas)
	pkg := schemas[0].Package
	var names []string
	schemas[0].Objects.Iterate(func(k string, _ ast.Object) { names = append(names, k) })
	obj := pick(rng, names)
	field := "nofield"
	if t := schemas[0].Objects.Get(obj).Type; t.Kind == ast.KindStruct && len(t.Struct.Fields) > 0 {
		field = t.Struct.Fields[0].Name
	}
	types := []string{"{kind: scalar}", "{kind: scalar, scalar: {scalar_kind: string}}", "{kind: ref}", "{kind: array}", "{kind: map}", "{kind: struct}", "{kind: enum}", "{kind: disjunction}", "{}", "{kind: nope}", "{kind: ref, ref: {referred_pkg: nopkg, referred_type: X}}", "{kind: constant_ref}", "{kind: intersection}", "{kind: composable_slot}", "{kind: enum, enum: {values: [{name: a, value: 1}]}}", "{kind: scalar, scalar: {scalar_kind: string, value: [1,2]}}", "{kind: disjunction, disjunction: {branches: [{kind: scalar}]}}"}
	ty := pick(rng, types)
	if c%2 == 0 {
		items := []string{
			fmt.Sprintf("  - add_object: {object: %s.Added, as: %s}\n", pkg, ty),
			fmt.Sprintf("  - retype_object: {object: %s.%s, as: %s}\n", pkg, obj, ty),
			fmt.Sprintf("  - retype_field: {field: %s.%s.%s, as: %s}\n", pkg, obj, field, ty),
			fmt.Sprintf("  - add_fields: {to: %s.%s, fields: [{name: nf, type: %s}]}\n", pkg, obj, ty),
			fmt.Sprintf("  - hint_object: {object: %s.Added, hints: {implements_variant: 3, x: [1]}}\n", pkg),
			fmt.Sprintf("  - hint_object: {object: %s.%s, hints: {implements_variant: 3}}\n", pkg, obj),
			fmt.Sprintf("  - rename_object: {from: %s.%s, to: ''}\n", pkg, obj),
			fmt.Sprintf("  - rename_object: {from: '%s', to: X}\n", obj),
			fmt.Sprintf("  - duplicate_object: {object: %s.%s, as: %s.%s}\n", pkg, obj, pkg, obj),
			fmt.Sprintf("  - omit: {objects: ['%s.%s']}\n", pkg, obj),
			fmt.Sprintf("  - constant_to_enum: {objects: ['%s.%s']}\n", pkg, obj),
			fmt.Sprintf("  - fields_set_default: {defaults: {%s.%s.%s: {a: [1, {b: 2}]}}}\n", pkg, obj, field),
			fmt.Sprintf("  - fields_set_default: {defaults: {bad-ref: 1}}\n"),
			fmt.Sprintf("  - name_anonymous_struct: {field: %s.%s.%s, as: Named}\n", pkg, obj, field),
			fmt.Sprintf("  - schema_set_entry_point: {package: %s, entry_point: Nope}\n", pkg),
			fmt.Sprintf("  - replace_reference: {from: %s.%s, to: %s.Nope}\n", pkg, obj, pkg),
			"  - unspec: {}\n", "  - trim_enum_values: {}\n", "  - dataquery_identification: {}\n", "  - entrypoint_identification: {}\n",
			"  - disjunction_to_type: {}\n", "  - anonymous_structs_to_named: {}\n", "  - disjunction_infer_mapping: {}\n", "  - disjunction_with_constant_to_default: {}\n", "  - disjunction_of_anonymous_structs_to_explicit: {}\n",
		}
		var sb strings.Builder
		sb.WriteString("passes:\n")
		n := rng.Range(1, 4)
		for i := 0; i < n; i++ {
			sb.WriteString(pick(rng, items))
		}
		doc := sb.String()
		if rng.Chance(0.2) {
			doc = string(mutateBytes(rng, []byte(doc)))
		}
		return c04Case{Kind: "passes", Class: "passes", Data: doc, Extra: ir}
	}
	sel := fmt.Sprintf("by_name: %s.%s", obj, field)
	aimSel := pick(rng, []string{"by_name: Panel.items", "by_name: Panel.byName", "by_name: Panel.visible", "by_name: Panel.leaf", "by_name: Panel.choice", "by_name: Panel.tags", "by_name: Panel.title"})
	items := []string{
		fmt.Sprintf("  - disjunction_as_options: {%s, argument_index: %d}\n", aimSel, rng.Range(-1, 3)),
		fmt.Sprintf("  - rename_arguments: {%s, as: []}\n", aimSel),
		fmt.Sprintf("  - rename_arguments: {%s, as: [a, b, c]}\n", aimSel),
		fmt.Sprintf("  - map_to_index: {%s}\n", aimSel),
		fmt.Sprintf("  - array_to_append: {%s}\n", aimSel),
		fmt.Sprintf("  - unfold_boolean: {%s, true_as: yes, false_as: no}\n", aimSel),
		fmt.Sprintf("  - struct_fields_as_arguments: {%s}\n", aimSel),
		fmt.Sprintf("  - struct_fields_as_arguments: {%s, fields: [nope]}\n", aimSel),
		fmt.Sprintf("  - struct_fields_as_options: {%s}\n", aimSel),
		fmt.Sprintf("  - duplicate: {%s, as: dup}\n", aimSel),
		fmt.Sprintf("  - omit: {%s}\n", aimSel),
		fmt.Sprintf("  - omit: {%s}\n", sel),
		fmt.Sprintf("  - add_assignment: {%s, assignment: {path: nope.nope, method: direct, value: {constant: 1}}}\n", aimSel),
		fmt.Sprintf("  - add_assignment: {%s, assignment: {path: title, method: append, value: {constant: [1]}}}\n", aimSel),
		fmt.Sprintf("  - add_assignment: {%s, assignment: {path: fieldConfig, value: {envelope: {values: [{field: nope, value: {constant: 1}}]}}}}\n", aimSel),
		fmt.Sprintf("  - add_comments: {%s, comments: []}\n", aimSel),
	}
	bitems := []string{
		"  - omit: {by_object: Panel}\n", "  - omit: {by_name: Leaf}\n", "  - rename: {by_object: Panel, as: ''}\n", "  - duplicate: {by_object: Panel, as: Panel}\n",
		"  - merge_into: {destination: Panel, source: Leaf, under_path: nope.nope}\n", "  - merge_into: {destination: Panel, source: Leaf, under_path: ''}\n", "  - merge_into: {destination: Panel, source: Panel, under_path: leaf}\n",
		"  - merge_into: {destination: Panel, source: Leaf, under_path: fieldConfig.defaults.custom}\n",
		"  - initialize: {by_object: Panel, set: [{property: nope, value: 1}]}\n", "  - initialize: {by_object: Panel, set: [{property: title, value: {a: 1}}]}\n",
		"  - promote_options_to_constructor: {by_object: Panel, options: [title, nope, items]}\n",
		"  - properties: {by_object: Panel, set: [{name: p, type: {kind: scalar}}]}\n",
		"  - add_option: {by_object: Panel, option: {name: o, arguments: [], assignments: [{path: nope, value: {constant: 1}}]}}\n",
		"  - add_factory: {by_object: Panel, factory: {name: f, options: [{name: nope, parameters: [{constant: {type: {kind: scalar}, value: 1}}]}]}}\n",
		"  - compose: {by_object: Panel, source_builder_name: Leaf, plugin_discriminator_field: nope}\n",
		"  - compose: {by_variant: panelcfg, source_builder_name: Panel, plugin_discriminator_field: title, composition_map: {a: b}}\n",
		"  - omit: {generated_from_disjunction: true}\n",
	}
	var sb strings.Builder
	sb.WriteString("language: all\npackage: aim\nbuilders:\n")
	for i, n := 0, rng.Range(0, 2); i < n; i++ {
		sb.WriteString(pick(rng, bitems))
	}
	sb.WriteString("options:\n")
	for i, n := 0, rng.Range(1, 3); i < n; i++ {
		sb.WriteString(pick(rng, items))
	}
	doc := sb.String()
	if rng.Chance(0.15) {
		doc = string(mutateBytes(rng, []byte(doc)))
	}
	return c04Case{Kind: "veneers", Class: "veneers", Data: doc, Extra: ir}
}

// c04PipelineVariants: pipeline documents over one schema with reference cycles (A → A, A → B → A, B → [B]).
func c04PipelineVariants() (variants []string, schema string) {
	schema = `{"$schema":"http://json-schema.org/draft-07/schema#","definitions":{"A":{"type":"object","properties":{"x":{"type":"string"},"next":{"$ref":"#/definitions/A"},"b":{"$ref":"#/definitions/B"}}},"B":{"type":"object","properties":{"a":{"$ref":"#/definitions/A"},"list":{"type":"array","items":{"$ref":"#/definitions/B"}}}},"C":{"type":"object","properties":{"y":{"type":"integer"}}}},"type":"object","properties":{"a":{"$ref":"#/definitions/A"}}}`
	base := "inputs:\n  - jsonschema: {path: '@DIR@/schema.json', package: pk}\noutput:\n  directory: '@DIR@/out/%l'\n  types: true\n  builders: true\n  languages:\n    - go: {package_root: 'example.com/x'}\n    - typescript: {}\n"
	variants = []string{
		base,
		strings.Replace(base, "package: pk", "package: pk, allowed_objects: [A]", 1),
		strings.Replace(base, "package: pk", "package: pk, allowed_objects: [B, C]", 1),
		"inputs:\n  - {}\noutput: {directory: x, languages: [{go: {}}]}\n",
		"inputs:\n  - jsonschema: {path: '@DIR@/schema.json'}\n    if: 'nope('\noutput: {directory: x, languages: [{}]}\n",
		"inputs:\n  - jsonschema: {path: '@DIR@/schema.json', if: '1 + 1'}\noutput: {directory: '@DIR@/o', types: true, languages: [{go: {}}]}\n",
		strings.Replace(base, "- typescript: {}", "- typescript: {path_prefix: null, packages_import_map: {pk: ''}}\n    - java: {}\n    - php: {}\n    - python: {path_prefix: '../..'}", 1),
		strings.Replace(base, "package: pk", "package: pk, allowed_objects: [Nope, A, '']", 1),
		strings.Replace(base, "package: pk", "package: pk, metadata: {kind: composable, variant: dataquery, identifier: ''}", 1),
		strings.Replace(base, "package: pk", "package: pk, metadata: {kind: composable, variant: panelcfg, identifier: x}", 1),
		strings.Replace(base, "package: pk", "package: '', transformations: ['@DIR@/nope.yaml']", 1),
		strings.Replace(base, "go: {package_root: 'example.com/x'}", "go: {package_root: '', overrides_templates: ['@DIR@'], extra_files_templates: ['@DIR@/nope'], skip_runtime: true}", 1),
		"inputs: []\noutput: {directory: x, types: true, languages: [{go: {}}]}\n",
		"parameters: {a: '%b%', b: '%a%'}\ninputs:\n  - jsonschema: {path: '%a%'}\noutput: {directory: '%b%', languages: [{go: {}}]}\n",
		strings.Replace(base, "directory: '@DIR@/out/%l'", "directory: '@DIR@/out/%l'\n  repository_templates: '@DIR@/nope'\n  templates_data: {a: b}", 1),
	}
	return variants, schema
}

func c04PipelineCases(rng *RNG) c04Case {
	variants, schema := c04PipelineVariants()
	doc := pick(rng, variants)
	if rng.Chance(0.35) {
		doc = string(mutateBytes(rng, []byte(doc)))
	}
	return c04Case{Kind: "pipeline", Class: "pipeline", Data: doc, Extra: schema}
}

func c04Cases(r *Run) []c04Case {
	var cases []c04Case
	add := func(c c04Case) {
		c.ID = fmt.Sprintf("c%05d", len(cases))
		cases = append(cases, c)
	}
	for _, b := range c04Breakers() {
		add(b)
	}
	for _, c := range c04InfiniteTypeIRs() {
		add(c)
	}
	pv, pschema := c04PipelineVariants()
	for _, doc := range pv {
		add(c04Case{Kind: "pipeline", Class: "pipeline", Data: doc, Extra: pschema})
	}
	// byte- and structure-level mutations of valid renderings
	nm := r.n(420, 40000)
	for i := 0; i < nm; i++ {
		rng := newRNG("C04m", r.Seed, i)
		format := []string{"jsonschema", "openapi", "cue"}[i%3]
		am := genAM(rng, capsFor(format), "pk", "general")
		txt := am.render(format)
		switch {
		case format == "cue":
			if rng.Chance(0.7) {
				add(c04Case{Kind: "schema", Format: format, Class: "cue-token-mutation", Data: mutateCUE(rng, string(txt))})
			} else {
				add(c04Case{Kind: "schema", Format: format, Class: "byte-mutation", Data: string(mutateBytes(rng, txt))})
			}
		case rng.Chance(0.7):
			dec := json.NewDecoder(bytes.NewReader(txt))
			dec.UseNumber()
			var tree any
			_ = dec.Decode(&tree)
			for k, n := 0, rng.Range(1, 3); k < n; k++ {
				tree = mutateJSONTree(rng, tree, 0)
			}
			b, _ := json.Marshal(tree)
			add(c04Case{Kind: "schema", Format: format, Class: "tree-mutation", Data: string(b)})
		default:
			add(c04Case{Kind: "schema", Format: format, Class: "byte-mutation", Data: string(mutateBytes(rng, txt))})
		}
	}
	// IRs
	ni := r.n(180, 12000)
	for i := 0; i < ni; i++ {
		rng := newRNG("C04ir", r.Seed, i)
		schemas, class := c04HostileIR(rng, i)
		add(c04Case{Kind: "ir", Class: "ir:" + class, Data: mustJSON(schemas)})
	}
	// YAML configuration
	ny := r.n(300, 20000)
	for i := 0; i < ny; i++ {
		rng := newRNG("C04y", r.Seed, i)
		if i%5 == 4 {
			add(c04PipelineCases(rng))
		} else {
			add(c04YAMLCases(rng, i))
		}
	}
	return cases
}

// c04InfiniteTypeIRs: fixed IRs holding a type of infinite size (an object that reaches itself without passing
// through a struct member), one language at a time, so that every package that cannot cope shows at every seed
// instead of whenever the random IRs happen to contain one.
func c04InfiniteTypeIRs() []c04Case {
	ref := func(n string) ast.Type { return ast.NewRef("pkga", n) }
	forms := []struct {
		name string
		objs []ast.Object
	}{
		{"array-of-itself", []ast.Object{ast.NewObject("pkga", "Loop", ast.NewArray(ref("Loop")))}},
		{"map-of-itself", []ast.Object{ast.NewObject("pkga", "Loop", ast.NewMap(ast.String(), ref("Loop")))}},
		{"array-and-map", []ast.Object{
			ast.NewObject("pkga", "Loop", ast.NewArray(ref("Other"))),
			ast.NewObject("pkga", "Other", ast.NewMap(ast.String(), ast.NewArray(ref("Loop")))),
		}},
		{"union-with-array-of-itself", []ast.Object{ast.NewObject("pkga", "Loop", ast.NewDisjunction(ast.Types{ast.String(), ast.NewArray(ref("Loop"))}))}},
	}
	var out []c04Case
	for _, f := range forms {
		for _, holder := range []bool{false, true} {
			objs := append([]ast.Object(nil), f.objs...)
			name := f.name
			if holder {
				name += "+holder"
				objs = append(objs, ast.NewObject("pkga", "Holder", ast.NewStruct(
					ast.NewStructField("loop", ref("Loop"), ast.Required()),
					ast.NewStructField("maybe", ref("Loop")),
					ast.NewStructField("name", ast.String(), ast.Required()),
				)))
			}
			schemas := ast.Schemas{ast.NewSchema("pkga", ast.SchemaMeta{})}
			for _, o := range objs {
				schemas[0].AddObject(o)
			}
			for _, lang := range langNames {
				out = append(out, c04Case{Kind: "ir", Format: lang, Class: "ir:infinite-type/" + name, Data: mustJSON(schemas)})
			}
		}
	}
	return out
}

// ---- parent -----------------------------------------------------------------------------

type shardOutcome struct {
	results    map[string]c04Result
	fatal      map[string]string // case id → crash class
	hangs      []string
	hangFrames map[string]string
}

func c04RunShard(self string, cases []c04Case, dir string, idx int, stall time.Duration) shardOutcome {
	out := shardOutcome{results: map[string]c04Result{}, fatal: map[string]string{}}
	casesPath := filepath.Join(dir, fmt.Sprintf("cases.%d.jsonl", idx))
	var buf bytes.Buffer
	for _, c := range cases {
		b, _ := json.Marshal(c)
		buf.Write(b)
		buf.WriteByte('\n')
	}
	_ = os.WriteFile(casesPath, buf.Bytes(), 0o644)
	journal := filepath.Join(dir, fmt.Sprintf("journal.%d", idx))
	results := filepath.Join(dir, fmt.Sprintf("results.%d.jsonl", idx))
	scratch := filepath.Join(dir, fmt.Sprintf("scratch.%d", idx))
	_ = os.MkdirAll(scratch, 0o755)
	done := map[string]bool{}
	readResults := func() {
		f, err := os.Open(results)
		if err != nil {
			return
		}
		defer f.Close()
		sc := bufio.NewScanner(f)
		sc.Buffer(make([]byte, 1<<20), 1<<26)
		for sc.Scan() {
			var r c04Result
			if json.Unmarshal(sc.Bytes(), &r) == nil && r.ID != "" {
				out.results[r.ID] = r
				done[r.ID] = true
			}
		}
	}
	lastJournal := func() string {
		b, _ := os.ReadFile(journal)
		lines := strings.Split(strings.TrimSpace(string(b)), "\n")
		return lines[len(lines)-1]
	}
	for attempt := 0; attempt < 200; attempt++ {
		var skip []string
		for id := range done {
			skip = append(skip, id)
		}
		errPath := filepath.Join(dir, fmt.Sprintf("stderr.%d.%d", idx, attempt))
		errF, _ := os.Create(errPath)
		cmd := exec.Command(self, "c04worker", casesPath, journal, results, scratch, strings.Join(skip, ","))
		cmd.Stdout, cmd.Stderr = errF, errF
		cmd.Env = append(os.Environ(), "GOTRACEBACK=single")
		_ = cmd.Start()
		finished := make(chan error, 1)
		go func() { finished <- cmd.Wait() }()
		// progress watchdog: the journal must advance
		var werr error
		hung := false
		lastSize, lastChange := int64(-1), time.Now()
	wait:
		for {
			select {
			case werr = <-finished:
				break wait
			case <-time.After(500 * time.Millisecond):
				st, err := os.Stat(journal)
				if err == nil && st.Size() != lastSize {
					lastSize, lastChange = st.Size(), time.Now()
				}
				if time.Since(lastChange) > stall {
					hung = true
					// SIGQUIT makes the Go runtime dump goroutines to stderr (a file) before exiting
					_ = cmd.Process.Signal(syscall.SIGQUIT)
					select {
					case <-finished:
					case <-time.After(5 * time.Second):
						_ = cmd.Process.Kill()
						<-finished
					}
					break wait
				}
			}
		}
		errF.Close()
		readResults()
		if werr == nil && !hung {
			break
		}
		culprit, note, _ := strings.Cut(lastJournal(), "\t")
		if culprit == "" || done[culprit] {
			break
		}
		done[culprit] = true
		if hung {
			out.hangs = append(out.hangs, culprit)
			eb, _ := os.ReadFile(errPath)
			if out.hangFrames == nil {
				out.hangFrames = map[string]string{}
			}
			out.hangFrames[culprit] = runningFrame(string(eb))
		} else {
			eb, _ := os.ReadFile(errPath)
			cls := crashClass(string(eb))
			if strings.HasPrefix(cls, "fatal:stack-overflow@") {
				// the same function overflowing on an input of another shape is another defect
				shape := "no-ir-reached"
				if strings.HasPrefix(note, "shape=") {
					shape = strings.TrimPrefix(note, "shape=")
				}
				if shape == "structless-cycle" {
					// a type of infinite size (`A = [...A]`) sends every recursive walker of a package round in circles, and
					// which function of the circle the truncated dump shows most varies: the package names the finding
					fn := strings.TrimPrefix(cls, "fatal:stack-overflow@")
					if i := strings.LastIndex(fn, "/"); i >= 0 {
						if j := strings.Index(fn[i:], "."); j >= 0 {
							fn = fn[:i+j]
						}
					} else if j := strings.Index(fn, "."); j >= 0 {
						fn = fn[:j]
					}
					cls = "fatal:stack-overflow@" + fn
				}
				cls += "/" + shape
			}
			out.fatal[culprit] = cls
		}
	}
	return out
}

// runningFrame extracts, from a SIGQUIT dump, the outermost cog frame of the running goroutine below
// the harness (the entry point that does not return), which is stable across samples of a loop.
func runningFrame(dump string) string {
	i := strings.Index(dump, "[running]")
	if i < 0 {
		i = strings.Index(dump, "goroutine 1 ")
		if i < 0 {
			i = 0
		}
	}
	last := "?"
	for _, l := range strings.Split(dump[i:], "\n") {
		l = strings.TrimSpace(l)
		if l == "" && last != "?" {
			break
		}
		if strings.Contains(l, "zzverif") {
			break
		}
		if strings.HasPrefix(l, "github.com/grafana/cog/") {
			if j := strings.LastIndex(l, "("); j > 0 {
				l = l[:j]
			}
			last = strings.TrimPrefix(l, "github.com/grafana/cog/")
		}
	}
	return last
}

func crashClass(stderr string) string {
	switch {
	case strings.Contains(stderr, "stack overflow"), strings.Contains(stderr, "goroutine stack exceeds"):
		// the recursion cycle = the cog functions that occur most often in the dump; the
		// alphabetically first of them names the finding (stable whatever frame was innermost)
		counts := map[string]int{}
		for _, l := range strings.Split(stderr, "\n") {
			l = strings.TrimSpace(l)
			if strings.HasPrefix(l, "github.com/grafana/cog/") && !strings.Contains(l, "zzverif") {
				if i := strings.LastIndex(l, "("); i > 0 {
					l = l[:i]
				}
				counts[strings.TrimPrefix(l, "github.com/grafana/cog/")]++
			}
		}
		best, frame := 0, "?"
		for _, n := range counts {
			if n > best {
				best = n
			}
		}
		for _, f := range sortedKeys(counts) {
			if counts[f]*3 >= best*2 { // part of the cycle (allow unevenly truncated dumps)
				frame = f
				break
			}
		}
		return "fatal:stack-overflow@" + frame
	case strings.Contains(stderr, "out of memory"):
		return "fatal:out-of-memory"
	case strings.Contains(stderr, "fatal error:"):
		i := strings.Index(stderr, "fatal error:")
		return "fatal:" + maskMsg(stderr[i+12:min(len(stderr), i+80)])
	}
	return "fatal:process-died:" + maskMsg(truncate(stderr, 60))
}

func checkC04(r *Run) {
	r.Rule = "cases = semantic breakers from reading the code (fixed list), byte/tree/token mutations of valid JSON Schema/OpenAPI/CUE renderings, well-formed and controlled ill-formed IRs, YAML passes/veneers/pipeline documents with odd parameters; each runs the real entry points (parse → all 7 chains → builders → veneers → jennies) in isolated worker processes. distinct_nontrivial = distinct cases that got past the first stage (parse/load succeeded)"
	self, _ := os.Executable()
	dir, _ := os.MkdirTemp(scratchDir(), "c04-")
	defer os.RemoveAll(dir)
	cases := c04Cases(r)
	if dump := os.Getenv("VERIF_C04_DUMP"); dump != "" {
		var buf bytes.Buffer
		for _, c := range cases {
			b, _ := json.Marshal(c)
			buf.Write(b)
			buf.WriteByte('\n')
		}
		_ = os.WriteFile(dump, buf.Bytes(), 0o644)
		fmt.Println("cases dumped to", dump)
		os.Exit(0)
	}
	byID := map[string]c04Case{}
	for _, c := range cases {
		byID[c.ID] = c
	}
	shards := 16
	per := (len(cases) + shards - 1) / shards
	outs := make([]shardOutcome, shards)
	var wg sync.WaitGroup
	for s := 0; s < shards; s++ {
		lo, hi := s*per, min(len(cases), (s+1)*per)
		if lo >= hi {
			continue
		}
		wg.Add(1)
		go func(s int, part []c04Case) {
			defer wg.Done()
			outs[s] = c04RunShard(self, part, dir, s, 12*time.Second)
		}(s, cases[lo:hi])
	}
	wg.Wait()
	stageCount := map[string]int{}
	classCount := map[string]int{}
	aloneIdx := 0
	missing := 0
	for _, o := range outs {
		for id, cls := range o.fatal {
			c := byID[id]
			r.Violation(cls, fmt.Sprintf("worker process died while running case %s (%s %s, class %s): %s\ninput:\n%s", id, c.Kind, c.Format, c.Class, cls, truncate(c.Data, 1500)), map[string]any{"case": c})
			r.Count("fatal_crashes", 1)
		}
		for _, id := range o.hangs {
			c := byID[id]
			// re-run alone with a generous limit before calling it a hang
			aloneIdx++
			alone := c04RunShard(self, []c04Case{c}, dir, 1000+aloneIdx, 90*time.Second)
			if _, ok := alone.results[id]; ok {
				r.CaseInconclusive("case " + id + " stalled in a loaded worker but completes alone")
				continue
			}
			if cls := alone.fatal[id]; cls != "" {
				// a runaway recursion that had not yet exhausted its stack when the shard's watchdog fired
				r.Violation(cls, fmt.Sprintf("worker process died while running case %s (%s %s, class %s): %s\ninput:\n%s", id, c.Kind, c.Format, c.Class, cls, truncate(c.Data, 1500)), map[string]any{"case": c})
				r.Count("fatal_crashes", 1)
				continue
			}
			frame := alone.hangFrames[id]
			if frame == "" {
				frame = o.hangFrames[id]
			}
			r.Violation(fmt.Sprintf("hang@%s", frame), fmt.Sprintf("case %s (class %s) does not terminate (no progress for 12s in a shard, then for 90s alone); running in %s\ninput:\n%s", id, c.Class, frame, truncate(c.Data, 1500)), map[string]any{"case": c})
		}
	}
	for _, c := range cases {
		var res *c04Result
		for _, o := range outs {
			if rr, ok := o.results[c.ID]; ok {
				res = &rr
				break
			}
		}
		if res == nil {
			missing++
			continue
		}
		r.Eval()
		classCount[c.Class]++
		stageCount[res.Outcome+"@"+stageGroup(res.Stage)]++
		if res.Outcome == "ok" || (res.Stage != "" && !strings.HasPrefix(res.Stage, "parse/") && !strings.HasSuffix(res.Stage, "/load") && res.Stage != "start") {
			r.Distinct(c.Kind + c.Format + c.Data)
		}
		if res.Outcome == "panic" {
			key := fmt.Sprintf("panic/%s/%s@%s", stageGroup(res.Stage), panicClass(res.Panic), res.Frame)
			r.Violation(key, fmt.Sprintf("case %s (%s %s, class %s) panics at stage %s: %s\ninput:\n%s", c.ID, c.Kind, c.Format, c.Class, res.Stage, res.Panic, truncate(c.Data, 1500)), map[string]any{"case": c})
		}
	}
	for _, k := range sortedKeys(stageCount) {
		r.Count("outcome."+k, stageCount[k])
	}
	for _, k := range sortedKeys(classCount) {
		r.Count("class."+k, classCount[k])
	}
	if missing > len(cases)/50 {
		r.Inconclusive(fmt.Sprintf("%d of %d cases produced no result", missing, len(cases)))
	}
	r.Count("cases", len(cases))
	r.Count("cases_without_result", missing)
	r.Sample(map[string]any{"breaker": cases[0].Class, "data": truncate(cases[0].Data, 200)})
	r.Sample(map[string]any{"mutation": cases[len(c04Breakers())+1].Class, "data": truncate(cases[len(c04Breakers())+1].Data, 200)})
	_ = sort.Strings
}

func stageGroup(stage string) string {
	parts := strings.Split(stage, "/")
	if len(parts) > 3 {
		parts = parts[:3]
	}
	return strings.Join(parts, "/")
}
