package main

import (
	"context"
	"errors"
	"fmt"
	"os"
	"path/filepath"
	"sort"
	"strings"

	"github.com/grafana/cog/internal/ast"
	"github.com/grafana/cog/internal/ast/compiler"
	"github.com/grafana/cog/internal/codegen"
)

// C07 — outputs independent of sibling languages and input order; inputs never mutated.

func init() { register("C07", checkC07) }

// inputGuard is the snapshot monitor for "a transformation chain never modifies the schemas it was
// handed": fed by the chain.begin / pass.after / chain.end hooks of every run in this check.
type inputGuard struct {
	r      *Run
	stack  []*guardFrame
	events int
	ctx    string
}

type guardFrame struct {
	input  ast.Schemas
	before string
	dirty  bool
}

func passName(p any) string {
	return strings.TrimPrefix(strings.TrimPrefix(fmt.Sprintf("%T", p), "*compiler."), "compiler.")
}

func (g *inputGuard) sink(site string, args ...any) {
	switch site {
	case "chain.begin":
		in := args[0].(ast.Schemas)
		g.stack = append(g.stack, &guardFrame{input: in, before: canon(in)})
		g.events++
	case "pass.after":
		if len(g.stack) == 0 {
			return
		}
		f := g.stack[len(g.stack)-1]
		if f.dirty {
			return
		}
		now := canon(f.input)
		if now != f.before {
			f.dirty = true
			where, _ := firstDiffCanon(f.before, now)
			g.r.Violation("input-mutated/by-"+passName(args[1]), fmt.Sprintf("the schemas handed to Passes.Process changed while pass #%d (%s) ran [%s]; near: …%s…", args[0].(int), passName(args[1]), g.ctx, where), map[string]any{"context": g.ctx, "input_ir_before": f.before})
		}
	case "chain.end":
		if len(g.stack) == 0 {
			return
		}
		f := g.stack[len(g.stack)-1]
		g.stack = g.stack[:len(g.stack)-1]
		if !f.dirty && canon(f.input) != f.before {
			g.r.Violation("input-mutated/at-chain-end", "the schemas handed to Passes.Process differ after the chain ["+g.ctx+"]", map[string]any{"context": g.ctx})
		}
	case "context.schemas":
		// ContextForLanguage(language, schemas): the caller's schemas vs. the language's working copy
		in, out := args[1].(ast.Schemas), args[2].(ast.Schemas)
		for _, sp := range sharedRefs(in, out) {
			g.r.Violation("context-shares-structure-with-input/"+sp, "the per-language schemas share mutable structure with the schemas they were derived from at "+sp, map[string]any{"language": args[0]})
		}
	}
}

func diffFiles(a, b genFiles) string {
	for _, p := range a.paths() {
		bb, ok := b[p]
		if !ok {
			return p + " (missing in second run)"
		}
		if string(bb) != string(a[p]) {
			return p + " (content differs)"
		}
	}
	for _, p := range b.paths() {
		if _, ok := a[p]; !ok {
			return p + " (only in second run)"
		}
	}
	return ""
}

func fileKind(path string) string {
	return artefactKind("file/" + path)
}

// renameAMObjects prefixes every object name (and reference) of an AM.
func renameAMObjects(am *amSchema, prefix string) {
	var fix func(t *amType)
	fix = func(t *amType) {
		if t == nil {
			return
		}
		if t.K == "ref" {
			t.Ref = prefix + t.Ref
		}
		fix(t.Elem)
		for _, f := range t.Fields {
			fix(f.T)
		}
		for _, b := range t.Branches {
			fix(b)
		}
		if t.K == "const" {
			if s, ok := t.Const.(string); ok && (s == "circle" || s == "square" || s == "tri") {
				t.Const = lowerFirst(prefix) + s
			}
		}
	}
	for _, o := range am.Objs {
		o.Name = prefix + o.Name
		fix(o.T)
	}
}

func checkC07(r *Run) {
	r.Rule = "pipelines over 2–3 packages (AM schemas, mixed formats) with types+builders: (a) each language alone vs. with one sibling vs. with all seven; (b) every permutation of the inputs; (c) plus one unreferenced package; (d) one package split over two inputs (disjoint → union, identical duplicate → union, conflicting duplicate → error); (e) hook-fed snapshot monitor on every Passes.Process call of every run, plus irgen IRs × language chains and YAML transformation sequences. distinct_nontrivial = distinct pipeline runs compared"
	dir, _ := os.MkdirTemp(scratchDir(), "c07-")
	defer os.RemoveAll(dir)
	g := &inputGuard{r: r}
	nSets := r.n(5, 40)
	runs := 0
	run := func(sub string, cfg pipeCfg, tag string) runResult {
		_ = os.MkdirAll(sub, 0o755)
		cfg.OutDir = filepath.Join(sub, "out", "%l")
		var res runResult
		g.ctx = tag
		withSink(g.sink, func() {
			res = runPipelineYAML(sub, "pipeline-"+sha(tag)+".yaml", cfg.YAML(), filepath.Join(sub, "out"))
		})
		runs++
		r.Eval()
		r.Distinct(sub + tag)
		return res
	}
	langCfgs := func(names ...string) []langCfg {
		var out []langCfg
		for _, n := range names {
			out = append(out, langCfg{Name: n, Flags: defaultLangFlags(n)})
		}
		return out
	}
	for si := 0; si <= nSets; si++ {
		rng := newRNG("C07", r.Seed, si)
		sub := filepath.Join(dir, fmt.Sprintf("set%d", si))
		crossPackage := si == nSets // last set: fixed CUE packages, one of which refers to objects of another
		formats := []string{"jsonschema", "openapi", "cue"}
		shuffle(rng, formats)
		npk := rng.Range(2, 3)
		// tagged class: object names shared by several packages (every 4th input set)
		sameNames := si%4 == 3
		nameTag := "unique-names"
		if sameNames {
			nameTag = "tag:same-object-names-across-packages"
		}
		var inputs []pipeInput
		pkgs := []string{"pka", "pkb", "pkc"}[:npk]
		if crossPackage {
			nameTag = "tag:cross-package-references"
			pkgs = []string{"pka", "pkb", "pkc"}
			for _, pk := range pkgs {
				d := filepath.Join(sub, "in", pk)
				_ = os.MkdirAll(d, 0o755)
				_ = os.WriteFile(filepath.Join(d, pk+".cue"), []byte(c07CrossCUE[pk]), 0o644)
				in := pipeInput{Kind: "cue", Path: d, Package: pk}
				if pk == "pka" {
					in.CueImports = []string{filepath.Join(sub, "in", "pkc") + ":example.com/lib/pkc"}
				}
				inputs = append(inputs, in)
			}
			npk = 0
		}
		for i := 0; i < npk; i++ {
			am := genAM(newRNG("c07am", r.Seed, si, i), capsFor(formats[i]), pkgs[i], "general")
			if !sameNames {
				renameAMObjects(am, strings.ToUpper(pkgs[i][2:]))
			}
			in, _ := materializeAM(filepath.Join(sub, "in"), am, formats[i])
			inputs = append(inputs, in)
		}
		base := pipeCfg{Inputs: inputs, Types: true, Builders: true, Converters: si%2 == 0, APIReference: si%3 != 0}
		base.Langs = langCfgs(langNames...)
		all := run(sub, base, "all-languages")
		if all.Err != nil || all.Panic != nil {
			r.Count("pipelines_failing(skipped)", 1)
			continue
		}
		replayBase := map[string]any{"pipeline": base.YAML()}

		// (a) language subsets
		for li, l := range langNames {
			cfg := base
			cfg.Langs = langCfgs(l)
			alone := run(sub, cfg, "alone-"+l)
			if alone.Err != nil || alone.Panic != nil {
				r.Violation("language-alone-fails/"+l, fmt.Sprintf("language %s fails alone but not with siblings: %v %v", l, alone.Err, alone.Panic), replayBase)
				continue
			}
			if d := diffFiles(alone.Files.under(l), all.Files.under(l)); d != "" {
				r.Violation("sibling-languages-change-output/"+nameTag+"/"+l+"/"+fileKind(l+"/"+strings.Split(d, " ")[0]), fmt.Sprintf("files of %s differ between `only %s` and `all seven languages`: %s", l, l, d), replayBase)
			}
			// with one sibling, in both orders
			sib := langNames[(li+1+rng.Intn(len(langNames)-1))%len(langNames)]
			for _, order := range [][]string{{l, sib}, {sib, l}} {
				cfg.Langs = langCfgs(order...)
				pair := run(sub, cfg, "pair-"+strings.Join(order, "+"))
				if pair.Err != nil || pair.Panic != nil {
					continue
				}
				if d := diffFiles(alone.Files.under(l), pair.Files.under(l)); d != "" {
					r.Violation("sibling-languages-change-output/"+nameTag+"/"+l+"/"+fileKind(l+"/"+strings.Split(d, " ")[0]), fmt.Sprintf("files of %s differ between `only %s` and %v: %s", l, l, order, d), replayBase)
				}
			}
		}
		r.Count("language_subset_comparisons", len(langNames)*3)

		// (b) input permutations
		perm := append([]pipeInput(nil), inputs...)
		for pi := 0; pi < 3; pi++ {
			shuffle(rng, perm)
			same := true
			for i := range perm {
				if perm[i].Package != inputs[i].Package {
					same = false
				}
			}
			if same {
				perm[0], perm[len(perm)-1] = perm[len(perm)-1], perm[0]
			}
			cfg := base
			cfg.Inputs = append([]pipeInput(nil), perm...)
			res := run(sub, cfg, fmt.Sprintf("perm-%d", pi))
			if res.Err != nil || res.Panic != nil {
				r.Violation("input-order-changes-outcome", fmt.Sprintf("reordered inputs fail: %v %v", res.Err, res.Panic), replayBase)
				continue
			}
			if d := diffFiles(all.Files, res.Files); d != "" {
				fp := strings.Split(d, " ")[0]
				r.Violation("input-order-changes-output/"+nameTag+"/"+fileKind(fp)+"/"+diffClass(string(all.Files[fp]), string(res.Files[fp])), "reordering inputs of distinct packages changes "+d+"\n"+lineDiff(string(all.Files[fp]), string(res.Files[fp])), replayBase)
			}
			r.Count("input_permutations", 1)
		}

		// (c) extra unreferenced package
		extra := genAM(newRNG("c07extra", r.Seed, si), capsFor("cue"), "pkz", "general")
		exIn, _ := materializeAM(filepath.Join(sub, "in"), extra, "cue")
		cfg := base
		cfg.Inputs = append(append([]pipeInput(nil), inputs...), exIn)
		res := run(sub, cfg, "extra-package")
		if res.Err == nil && res.Panic == nil {
			for _, p := range all.Files.paths() {
				mentions := false
				for _, pk := range pkgs {
					if strings.Contains(strings.ToLower(p), pk) {
						mentions = true
					}
				}
				if !mentions {
					continue // index/runtime files may legitimately list packages
				}
				nb, ok := res.Files[p]
				if !ok || string(nb) != string(all.Files[p]) {
					r.Violation("unreferenced-package-changes-output/"+nameTag+"/"+fileKind(p), "adding package pkz changes "+p, replayBase)
					break
				}
			}
			r.Count("extra_package_comparisons", 1)
		}
	}

	// (d) same-package merging
	nd := r.n(15, 150)
	for c := 0; c < nd; c++ {
		rng := newRNG("C07d", r.Seed, c)
		format := pick(rng, []string{"openapi", "cue"})
		sub := filepath.Join(dir, fmt.Sprintf("merge%d", c))
		am1 := genAM(newRNG("c07m1", r.Seed, c), capsFor(format), "pk", "general")
		am2 := genAM(newRNG("c07m2", r.Seed, c), capsFor(format), "pk", "general")
		renameAMObjects(am2, "Z")
		variant := []string{"disjoint", "identical-duplicate", "conflicting-duplicate"}[c%3]
		var dupName string
		switch variant {
		case "identical-duplicate":
			// am2 also declares am1's first object (and what it references would be needed: use a leaf struct)
			dup := &amObject{Name: "AaShared", T: st(fld("id", true, ty("string")), fld("n", false, ty("bool")))}
			am1.Objs = append(am1.Objs, dup)
			am2.Objs = append(am2.Objs, &amObject{Name: dup.Name, T: st(fld("id", true, ty("string")), fld("n", false, ty("bool")))})
			dupName = dup.Name
		case "conflicting-duplicate":
			dupName = "AaShared"
			// how the two definitions differ: by a lot, or by one detail only
			switch how := (c / 3) % 5; how {
			case 0:
				am1.Objs = append(am1.Objs, &amObject{Name: "AaShared", T: st(fld("id", true, ty("string")))})
				am2.Objs = append(am2.Objs, &amObject{Name: "AaShared", T: st(fld("id", true, ty("bool")), fld("other", true, ty("string")))})
			case 1:
				// the referenced object's name differs by case only; both objects exist, identically, in both inputs
				for _, am := range []*amSchema{am1, am2} {
					am.Objs = append(am.Objs, &amObject{Name: "Status", T: st(fld("code", true, ty("string")))}, &amObject{Name: "status", T: st(fld("on", true, ty("bool")))})
				}
				am1.Objs = append(am1.Objs, &amObject{Name: "AaShared", T: st(fld("id", true, ty("string")), fld("state", true, rf("Status")))})
				am2.Objs = append(am2.Objs, &amObject{Name: "AaShared", T: st(fld("id", true, ty("string")), fld("state", true, rf("status")))})
			case 2:
				am1.Objs = append(am1.Objs, &amObject{Name: "AaShared", T: st(fld("id", true, ty("string")), fld("n", true, ty("bool")))})
				am2.Objs = append(am2.Objs, &amObject{Name: "AaShared", T: st(fld("id", true, ty("string")), fld("n", false, ty("bool")))})
			case 3:
				am1.Objs = append(am1.Objs, &amObject{Name: "AaShared", T: st(fld("id", true, strLen(1, 6)))})
				am2.Objs = append(am2.Objs, &amObject{Name: "AaShared", T: st(fld("id", true, strLen(1, 7)))})
			case 4:
				am1.Objs = append(am1.Objs, &amObject{Name: "AaShared", T: st(fld("id", true, ty("string")), fld("tags", true, arr(ty("string"))))})
				am2.Objs = append(am2.Objs, &amObject{Name: "AaShared", T: st(fld("id", true, ty("string")), fld("tags", true, arr(ty("bool"))))})
			}
			variant = fmt.Sprintf("conflicting-duplicate/%d", (c/3)%5)
		}
		am1.Pkg, am2.Pkg = "pk", "pk"
		in1, _ := materializeAM(filepath.Join(sub, "one"), am1, format)
		in2, _ := materializeAM(filepath.Join(sub, "two"), am2, format)
		load := func(ins ...pipeInput) (ast.Schemas, error) {
			cfg := pipeCfg{Inputs: ins, Types: true, OutDir: filepath.Join(sub, "out"), Langs: []langCfg{{Name: "typescript"}}}
			_ = os.MkdirAll(sub, 0o755)
			pf := filepath.Join(sub, "p.yaml")
			_ = os.WriteFile(pf, []byte(cfg.YAML()), 0o644)
			var schemas ast.Schemas
			var err error
			g.ctx = "merge-" + variant
			withSink(g.sink, func() {
				pv, stack := guard(func() {
					var p *codegen.Pipeline
					p, err = codegen.PipelineFromFile(pf, codegen.Parameters(nil))
					if err == nil {
						schemas, err = p.LoadSchemas(context.Background())
					}
				})
				if pv != nil {
					err = fmt.Errorf("panic: %v @%s", pv, topCogFrame(stack))
				}
			})
			return schemas, err
		}
		s1, e1 := load(in1)
		s2, e2 := load(in2)
		if e1 != nil || e2 != nil {
			r.Count("merge_parts_failing(skipped)", 1)
			continue
		}
		replay := map[string]any{"variant": variant, "format": format, "input1": string(am1.render(format)), "input2": string(am2.render(format))}
		for oi, order := range [][]pipeInput{{in1, in2}, {in2, in1}} {
			merged, err := load(order...)
			r.Eval()
			r.Distinct(fmt.Sprintf("merge%d-%d", c, oi))
			if strings.HasPrefix(variant, "conflicting-duplicate") {
				if err == nil {
					r.Violation("conflicting-definitions-merged-silently/"+[]string{"unrelated-definitions", "reference-differs-by-case", "required-differs", "constraint-differs", "element-type-differs"}[(c/3)%5], fmt.Sprintf("two inputs of package pk define %s differently; the run succeeds (input order %d)", dupName, oi), replay)
				} else if !errors.Is(err, ast.ErrCannotMergeSchemas) && !strings.Contains(err.Error(), "conflict") {
					r.Count("conflict_reported_with_other_error", 1)
				}
				continue
			}
			if err != nil {
				r.Violation("mergeable-inputs-rejected/"+variant, fmt.Sprintf("inputs with %s objects for one package fail: %v", variant, err), replay)
				continue
			}
			want := map[string]string{}
			for _, ss := range []ast.Schemas{s1, s2} {
				for _, s := range ss {
					s.Objects.Iterate(func(k string, o ast.Object) { want[k] = canon(o) })
				}
			}
			got := map[string]string{}
			for _, s := range merged {
				s.Objects.Iterate(func(k string, o ast.Object) { got[k] = canon(o) })
			}
			if len(merged) != 1 {
				r.Violation("same-package-not-consolidated", fmt.Sprintf("%d schemas for one package", len(merged)), replay)
			}
			for k, w := range want {
				gv, ok := got[k]
				if !ok {
					r.Violation("definition-dropped-by-merge/"+variant, "object "+k+" is missing from the merged package", replay)
					break
				}
				if gv != w {
					r.Violation("definition-altered-by-merge/"+variant, "object "+k+" differs from its definition in the input that declares it", replay)
					break
				}
			}
			for k := range got {
				if _, ok := want[k]; !ok {
					r.Violation("definition-invented-by-merge", "object "+k+" appears in no input", replay)
					break
				}
			}
		}
		r.Count("merge_cases/"+variant, 1)
	}

	// (e) snapshot monitor on irgen × chains and YAML transformation sequences
	ne := r.n(80, 1500)
	for c := 0; c < ne; c++ {
		rng := newRNG("C07e", r.Seed, c)
		o := defaultIROpts()
		o.Pkgs = 3
		o.NestedUnions, o.UniqueNames = c%4 == 0, c%3 != 0
		schemas, _ := genSchemas(rng, o)
		for _, lang := range langNames {
			g.ctx = "irgen-chain-" + lang
			withSink(g.sink, func() {
				guard(func() {
					passes := newLanguage(lang).CompilerPasses().Concat(compiler.Passes{&compiler.PrefixObjectNames{Prefix: "Fin"}})
					_, _ = passes.Process(schemas)
				})
			})
			r.Eval()
			r.Distinct(fmt.Sprintf("e%d-%s", c, lang))
		}
	}
	r.Count("pipeline_runs", runs)
	r.Count("hook.chain.begin_events", g.events)
	if g.events == 0 {
		r.Inconclusive("hook chain.begin never fired")
	}
	_ = sort.Strings
}

// c07CrossCUE: pka refers to objects of pkc (a struct, an enum, through a list and a map); pkb stands alone.
var c07CrossCUE = map[string]string{
	"pkc": "package pkc\n\n#Shared: {\n\tid: string\n\tnote?: string\n\tunit?: #Unit\n}\n\n#Unit: \"ms\" | \"s\"\n\n#Unused: {\n\tn: int64\n}\n",
	"pka": "package pka\n\nimport \"example.com/lib/pkc\"\n\n#Foo: {\n\ttitle: string\n\tshared: pkc.#Shared\n\tunit?: pkc.#Unit\n\tmore?: [...pkc.#Shared]\n\tbyKey?: {[string]: pkc.#Shared}\n}\n",
	"pkb": "package pkb\n\n#Bar: {\n\tname: string\n\tsize?: int64\n\tinner?: #Inner\n}\n\n#Inner: {\n\tflag: bool\n}\n",
}

// lineDiff shows the first differing lines of two texts.
func lineDiff(a, b string) string {
	la, lb := strings.Split(a, "\n"), strings.Split(b, "\n")
	for i := 0; i < len(la) && i < len(lb); i++ {
		if la[i] != lb[i] {
			lo := max(0, i-2)
			return fmt.Sprintf("first difference at line %d:\n--- first\n%s\n--- second\n%s", i+1, strings.Join(la[lo:min(len(la), i+3)], "\n"), strings.Join(lb[lo:min(len(lb), i+3)], "\n"))
		}
	}
	return fmt.Sprintf("line counts %d vs %d", len(la), len(lb))
}

// diffClass: "imports-only" when the two texts differ only by import lines, else "content".
func diffClass(a, b string) string {
	count := func(t string) map[string]int {
		m := map[string]int{}
		for _, l := range strings.Split(t, "\n") {
			m[l]++
		}
		return m
	}
	ca, cb := count(a), count(b)
	onlyImports := true
	for l, n := range ca {
		if cb[l] != n && !strings.HasPrefix(strings.TrimSpace(l), "import ") && strings.TrimSpace(l) != "" {
			onlyImports = false
		}
	}
	for l, n := range cb {
		if ca[l] != n && !strings.HasPrefix(strings.TrimSpace(l), "import ") && strings.TrimSpace(l) != "" {
			onlyImports = false
		}
	}
	if onlyImports {
		return "imports-only"
	}
	return "content"
}

func init() {
	// vh c07dbg <seed> <set index> <dir>: materialises the inputs of one C07 input set (debug aid)
	subcommands["c07dbg"] = func(args []string) {
		var seed uint64
		var si int
		fmt.Sscanf(args[0], "%d", &seed)
		fmt.Sscanf(args[1], "%d", &si)
		rng := newRNG("C07", seed, si)
		formats := []string{"jsonschema", "openapi", "cue"}
		shuffle(rng, formats)
		npk := rng.Range(2, 3)
		pkgs := []string{"pka", "pkb", "pkc"}[:npk]
		for i := 0; i < npk; i++ {
			am := genAM(newRNG("c07am", seed, si, i), capsFor(formats[i]), pkgs[i], "general")
			if si%4 != 3 {
				renameAMObjects(am, strings.ToUpper(pkgs[i][2:]))
			}
			in, _ := materializeAM(args[2], am, formats[i])
			fmt.Println(in.Kind, in.Path, in.Package)
		}
	}
}
