package main

import (
	"fmt"
	"os"
	"path/filepath"
	"strings"
)

// C10 — default constructors yield the schema's defaults and constants in Go and Python.

func init() { register("C10", checkC10) }

func checkC10(r *Run) {
	n := r.n(14, 220)
	r.Rule = "AM schemas with defaults of every value type the format can express (bool, integer, float, string, enum member, list, enum reference) and constants, 3 formats; Go NewX() and Python X() are executed and their JSON compared, field by field, with the defaults/constants the AM declared (each default is first confirmed acceptable by the format's reference validator through the schema itself). distinct_nontrivial = distinct (schema, object) pairs with at least one defaulted or constant field"
	c := buildCorpus(r, corpusOpts{N: n, Formats: []string{"jsonschema", "openapi", "cue"}, Profile: "defaults", Langs: []string{"go", "python"}, DocsPerObj: 2, Tag: "c10",
		GoFlags: map[string]any{"generate_equal": false, "generate_validate": false}})
	defer c.cleanup()
	goErr := c.buildGoDriver()
	if goErr != nil {
		r.CaseInconclusive("go driver: " + goErr.Error())
	}
	pyErr := c.buildPyTree()
	if goErr != nil && pyErr != nil {
		r.Inconclusive("neither Go nor Python output could be executed")
		return
	}
	for sid, d := range c.BrokenGo {
		r.CaseInconclusive("generated Go of " + sid + " does not compile (C02's business): " + d)
	}
	type meta struct {
		cs  *corpusSchema
		obj *amObject
	}
	var goReqs, pyReqs []drvReq
	metas := map[string]meta{}
	for _, cs := range c.Schemas {
		for _, o := range cs.AM.Objs {
			if o.T.K != "struct" {
				continue
			}
			interesting := false
			for _, f := range o.T.Fields {
				if f.T.Default != nil || f.T.K == "const" {
					interesting = true
				}
			}
			if !interesting {
				continue
			}
			id := cs.ID + "." + o.Name
			metas[id] = meta{cs, o}
			q := drvReq{ID: id, Op: "default", Type: id}
			if goErr == nil && cs.GoOK && cs.GoTypes[o.Name] {
				goReqs = append(goReqs, q)
			}
			if pyErr == nil && cs.PyOK {
				pyReqs = append(pyReqs, q)
			}
		}
	}
	goResps, pyResps := map[string]drvResp{}, map[string]drvResp{}
	if len(goReqs) > 0 {
		goResps, _ = c.runGo(goReqs)
	}
	xreqs, xwant := c10OptionalPass(r, c, pyErr == nil)
	pyReqs = append(pyReqs, xreqs...)
	if len(pyReqs) > 0 {
		pyResps, _ = c.runPy(pyReqs)
	}
	judge := func(lang string, id string, resp drvResp) {
		m := metas[id]
		replay := map[string]any{"format": m.cs.Format, "object": m.obj.Name, "language": lang, "schema": string(m.cs.SchemaText)}
		if resp.Unknown {
			r.Count(lang+".no_default_constructor", 1)
			return
		}
		if strings.HasPrefix(resp.Panic, "import:") {
			r.Count(lang+".not_importable(C02's business)", 1)
			return
		}
		r.Eval()
		r.Distinct(lang + id)
		r.Count("events."+lang+".default", 1)
		if resp.Panic != "" {
			r.Violation(lang+"/constructor-fails/"+maskMsg(resp.Panic), fmt.Sprintf("default constructor of %s: %s", m.obj.Name, resp.Panic), replay)
			return
		}
		if resp.MarshalErr != "" {
			r.Violation(lang+"/default-not-encodable/"+maskMsg(resp.MarshalErr), resp.MarshalErr, replay)
			return
		}
		got, err := parseJSONNum(resp.Out)
		gm, ok := got.(map[string]any)
		if err != nil || !ok {
			r.Violation(lang+"/default-not-an-object", string(resp.Out), replay)
			return
		}
		for _, f := range m.obj.T.Fields {
			var want any
			kind := ""
			switch {
			case f.T.K == "const":
				kind = "constant"
				switch cv := f.T.Const.(type) {
				case string:
					want = cv
				case bool:
					want = cv
				default:
					want = num(cv)
				}
			case f.T.Default != nil:
				kind = "default"
				want = f.T.Default
			default:
				continue
			}
			tag := strings.NewReplacer("+bounds", "", "+default", "").Replace(typeTag(m.cs.AM, f.T)) + reqTag(f)
			gv, present := gm[f.Name]
			if !present {
				r.Violation(fmt.Sprintf("%s/%s/%s-dropped/%s", lang, m.cs.Format, kind, tag), fmt.Sprintf("%s default object of %s lacks field %s (declared %s %s); got %s", lang, m.obj.Name, f.Name, kind, short(want), resp.Out), replay)
				continue
			}
			wj, _ := parseJSONNum(mustJSONBytes(want))
			if wm, isStruct := wj.(map[string]any); isStruct {
				// struct default with partial overrides: every listed member must hold the override
				gvm, _ := gv.(map[string]any)
				for _, k := range sortedKeys(wm) {
					if d := jsonDiff(wm[k], gvm[k], jsonCmpOpts{}, ""); d != "" {
						r.Violation(fmt.Sprintf("%s/%s/struct-default-override-altered/%s", lang, m.cs.Format, short(wm[k])), fmt.Sprintf("%s default object of %s: field %s.%s holds %s, the struct default declares %s", lang, m.obj.Name, f.Name, k, short(gvm[k]), short(wm[k])), replay)
					}
				}
				continue
			}
			if d := jsonDiff(wj, gv, jsonCmpOpts{}, ""); d != "" {
				r.Violation(fmt.Sprintf("%s/%s/%s-altered/%s", lang, m.cs.Format, kind, tag), fmt.Sprintf("%s default object of %s holds %s for field %s, schema declares %s %s", lang, m.obj.Name, short(gv), f.Name, kind, short(want)), replay)
			}
		}
		if len(r.samples) < 3 {
			r.Sample(map[string]any{"language": lang, "format": m.cs.Format, "object": m.obj.Name, "default_json": string(resp.Out)})
		}
	}
	for _, q := range goReqs {
		if resp, ok := goResps[q.ID]; ok {
			judge("go", q.ID, resp)
		}
	}
	for _, q := range pyReqs {
		if want, isX := xwant[q.ID]; isX {
			c10JudgeOptionalPass(r, q.ID, want, pyResps)
			continue
		}
		if resp, ok := pyResps[q.ID]; ok {
			judge("python", q.ID, resp)
		}
	}
	// Go / Python agreement on the defaulted fields
	for _, q := range goReqs {
		g, ok1 := goResps[q.ID]
		p, ok2 := pyResps[q.ID]
		if !ok1 || !ok2 || g.Panic != "" || p.Panic != "" || g.Out == nil || p.Out == nil {
			continue
		}
		m := metas[q.ID]
		gj, _ := parseJSONNum(g.Out)
		pj, _ := parseJSONNum(p.Out)
		gmap, _ := gj.(map[string]any)
		pmap, _ := pj.(map[string]any)
		for _, f := range m.obj.T.Fields {
			if f.T.Default == nil && f.T.K != "const" {
				continue
			}
			gv, gok := gmap[f.Name]
			pv, pok := pmap[f.Name]
			if gok != pok || jsonDiff(gv, pv, jsonCmpOpts{}, "") != "" {
				r.Count("go_python_disagree_on_default_field", 1)
			}
		}
		r.Count("events.go_python_compared", 1)
	}
}

func mustJSONBytes(v any) []byte {
	d := amDoc{Val: v}
	return d.JSON()
}

// ---- optional pass workload ---------------------------------------------------------------------
// `disjunction_with_constant_to_default` is not part of any language's chain: it is enabled through a schema
// transformation file. With it, a union of a constant and its own scalar kind becomes that scalar with the
// constant as default, whatever the order of the branches.

const c10OptionalPassSchema = `{"$schema":"http://json-schema.org/draft-07/schema#","definitions":{
 "Holder":{"type":"object","additionalProperties":false,"properties":{
   "constFirst":{"anyOf":[{"const":"x","type":"string"},{"type":"string"}]},
   "constLast":{"anyOf":[{"type":"string"},{"const":"y","type":"string"}]},
   "plain":{"type":"string","default":"p"}},
  "required":["constFirst","constLast","plain"]}},
 "type":"object","properties":{"holder":{"$ref":"#/definitions/Holder"}}}`

func c10OptionalPass(r *Run, c *corpus, pyOK bool) ([]drvReq, map[string]map[string]string) {
	if !pyOK {
		return nil, nil
	}
	sid := "x0002"
	in := filepath.Join(c.dir, "in", sid)
	_ = os.MkdirAll(in, 0o755)
	_ = os.WriteFile(filepath.Join(in, "pk.json"), []byte(c10OptionalPassSchema), 0o644)
	_ = os.WriteFile(filepath.Join(in, "passes.yaml"), []byte("passes:\n  - disjunction_with_constant_to_default: {}\n"), 0o644)
	outRoot := filepath.Join(c.dir, "out", sid)
	yaml := fmt.Sprintf("inputs:\n  - jsonschema:\n      path: %s\n      package: pk\ntransformations:\n  schemas:\n    - %s\noutput:\n  directory: %s\n  types: true\n  builders: false\n  languages:\n    - python: {generate_json_marshaller: true}\n",
		yq(filepath.Join(in, "pk.json")), yq(filepath.Join(in, "passes.yaml")), yq(filepath.Join(outRoot, "%l")))
	res := runPipelineYAML(in, "pipeline.yaml", yaml, outRoot)
	if res.Err != nil || res.Panic != nil {
		r.CaseInconclusive(fmt.Sprintf("optional-pass workload: pipeline failed: %v %v", res.Err, res.Panic))
		return nil, nil
	}
	if err := res.Files.under("python").writeTo(filepath.Join(c.dir, "pyroot", sid)); err != nil {
		r.CaseInconclusive("optional-pass workload: " + err.Error())
		return nil, nil
	}
	id := sid + "/pk.Holder"
	return []drvReq{{ID: id, Op: "default", Type: id}}, map[string]map[string]string{id: {"constFirst": "x", "constLast": "y", "plain": "p"}}
}

func c10JudgeOptionalPass(r *Run, id string, want map[string]string, resps map[string]drvResp) {
	resp, ok := resps[id]
	if !ok {
		r.CaseInconclusive("no python response for " + id)
		return
	}
	r.Eval()
	r.Distinct(id)
	r.Count("events.optional_pass_defaults", 1)
	replay := map[string]any{"workload": "disjunction_with_constant_to_default", "schema": c10OptionalPassSchema}
	if resp.Panic != "" {
		r.Violation("python/optional-pass/exception/"+maskMsg(truncate(resp.Panic, 80)), resp.Panic, replay)
		return
	}
	got, _ := parseJSONNum(resp.Out)
	gm, _ := got.(map[string]any)
	for _, f := range sortedKeys(want) {
		if fmt.Sprint(gm[f]) != want[f] {
			r.Violation("python/optional-pass/default-differs/"+f, fmt.Sprintf("with disjunction_with_constant_to_default enabled, the default object holds %v for %s, expected %q (%s)", gm[f], f, want[f], resp.Out), replay)
		}
	}
}
