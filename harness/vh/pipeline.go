package main

import (
	"context"
	"fmt"
	"os"
	"path/filepath"
	"sort"
	"strings"

	"github.com/grafana/cog/internal/codegen"
)

// Pipeline description → YAML → codegen.PipelineFromFile → Run. Everything goes through the
// user-facing path (YAML decoding, parameter interpolation, loaders).

type pipeInput struct {
	Kind           string // jsonschema | openapi | cue
	Path           string // file (jsonschema, openapi) or directory (cue)
	Package        string
	AllowedObjects []string
	Transforms     []string
	CueImports     []string // cue: "<dir>:<import path>"
}

type langCfg struct {
	Name  string
	Flags map[string]any
}

type pipeCfg struct {
	Inputs        []pipeInput
	Langs         []langCfg
	Types         bool
	Builders      bool
	Converters    bool
	APIReference  bool
	Debug         bool
	SchemaPasses  []string // files
	VeneerDirs    []string
	OutDir        string // may contain %l
	Params        map[string]string
	RepoTemplates string
}

func yq(s string) string { return "'" + strings.ReplaceAll(s, "'", "''") + "'" }

func (c pipeCfg) YAML() string {
	var sb strings.Builder
	if c.Debug {
		sb.WriteString("debug: true\n")
	}
	if len(c.Params) > 0 {
		sb.WriteString("parameters:\n")
		for _, k := range sortedKeys(c.Params) {
			fmt.Fprintf(&sb, "  %s: %s\n", k, yq(c.Params[k]))
		}
	}
	sb.WriteString("inputs:\n")
	for _, in := range c.Inputs {
		fmt.Fprintf(&sb, "  - %s:\n", in.Kind)
		if in.Kind == "cue" {
			fmt.Fprintf(&sb, "      entrypoint: %s\n", yq(in.Path))
		} else {
			fmt.Fprintf(&sb, "      path: %s\n", yq(in.Path))
		}
		if in.Package != "" {
			fmt.Fprintf(&sb, "      package: %s\n", yq(in.Package))
		}
		if len(in.AllowedObjects) > 0 {
			sb.WriteString("      allowed_objects:\n")
			for _, o := range in.AllowedObjects {
				fmt.Fprintf(&sb, "        - %s\n", yq(o))
			}
		}
		if len(in.CueImports) > 0 {
			sb.WriteString("      cue_imports:\n")
			for _, o := range in.CueImports {
				fmt.Fprintf(&sb, "        - %s\n", yq(o))
			}
		}
		if len(in.Transforms) > 0 {
			sb.WriteString("      transformations:\n")
			for _, o := range in.Transforms {
				fmt.Fprintf(&sb, "        - %s\n", yq(o))
			}
		}
	}
	if len(c.SchemaPasses) > 0 || len(c.VeneerDirs) > 0 {
		sb.WriteString("transformations:\n")
		if len(c.SchemaPasses) > 0 {
			sb.WriteString("  schemas:\n")
			for _, f := range c.SchemaPasses {
				fmt.Fprintf(&sb, "    - %s\n", yq(f))
			}
		}
		if len(c.VeneerDirs) > 0 {
			sb.WriteString("  builders:\n")
			for _, f := range c.VeneerDirs {
				fmt.Fprintf(&sb, "    - %s\n", yq(f))
			}
		}
	}
	sb.WriteString("output:\n")
	fmt.Fprintf(&sb, "  directory: %s\n", yq(c.OutDir))
	fmt.Fprintf(&sb, "  types: %v\n  builders: %v\n  converters: %v\n  api_reference: %v\n", c.Types, c.Builders, c.Converters, c.APIReference)
	if c.RepoTemplates != "" {
		fmt.Fprintf(&sb, "  repository_templates: %s\n", yq(c.RepoTemplates))
	}
	sb.WriteString("  languages:\n")
	for _, l := range c.Langs {
		fmt.Fprintf(&sb, "    - %s:", l.Name)
		if len(l.Flags) == 0 {
			sb.WriteString(" {}\n")
			continue
		}
		sb.WriteString("\n")
		for _, k := range sortedKeys(l.Flags) {
			switch v := l.Flags[k].(type) {
			case string:
				fmt.Fprintf(&sb, "        %s: %s\n", k, yq(v))
			default:
				fmt.Fprintf(&sb, "        %s: %v\n", k, v)
			}
		}
	}
	return sb.String()
}

func defaultLangFlags(name string) map[string]any {
	switch name {
	case "go":
		return map[string]any{"package_root": "example.com/gen", "generate_json_marshaller": true, "generate_strict_unmarshaller": true, "generate_equal": true, "generate_validate": true}
	case "java":
		return map[string]any{"package_path": "gen", "generate_json_marshaller": true}
	case "php":
		return map[string]any{"namespace_root": "Gen", "generate_json_marshaller": true}
	case "python":
		return map[string]any{"generate_json_marshaller": true}
	}
	return map[string]any{}
}

type genFiles map[string][]byte

func (g genFiles) digest() string {
	var sb strings.Builder
	for _, p := range g.paths() {
		sb.WriteString(p)
		sb.WriteByte(0)
		sb.WriteString(sha(string(g[p])))
		sb.WriteByte('\n')
	}
	return sha(sb.String())
}

func (g genFiles) paths() []string {
	ps := make([]string, 0, len(g))
	for p := range g {
		ps = append(ps, p)
	}
	sort.Strings(ps)
	return ps
}

// under returns the files below a directory prefix, with the prefix stripped.
func (g genFiles) under(prefix string) genFiles {
	out := genFiles{}
	prefix = strings.TrimSuffix(prefix, "/") + "/"
	for p, b := range g {
		if strings.HasPrefix(p, prefix) {
			out[strings.TrimPrefix(p, prefix)] = b
		}
	}
	return out
}

func (g genFiles) writeTo(dir string) error {
	for p, b := range g {
		full := filepath.Join(dir, p)
		if err := os.MkdirAll(filepath.Dir(full), 0o755); err != nil {
			return err
		}
		if err := os.WriteFile(full, b, 0o644); err != nil {
			return err
		}
	}
	return nil
}

type runResult struct {
	Files genFiles
	Err   error
	Panic any
	Stack string
}

// runPipelineYAML writes the YAML to dir/name and runs it. Output paths are made relative to the
// directory given as `outRoot` (the absolute output directory configured in the YAML).
func runPipelineYAML(dir, name, yaml, outRoot string) runResult {
	path := filepath.Join(dir, name)
	if err := os.WriteFile(path, []byte(yaml), 0o644); err != nil {
		return runResult{Err: err}
	}
	return runPipelineFile(path, outRoot)
}

func runPipelineFile(path, outRoot string) (res runResult) {
	res.Panic, res.Stack = guard(func() {
		pipeline, err := codegen.PipelineFromFile(path, codegen.Parameters(nil))
		if err != nil {
			res.Err = err
			return
		}
		fs, err := pipeline.Run(context.Background())
		if err != nil {
			res.Err = err
			return
		}
		cwd, _ := os.Getwd()
		files := genFiles{}
		for _, f := range fs.AsFiles() {
			p := f.RelativePath
			abs := p
			if !filepath.IsAbs(abs) {
				abs = filepath.Join(cwd, p)
			}
			if outRoot != "" {
				if rel, err := filepath.Rel(outRoot, abs); err == nil && !strings.HasPrefix(rel, "..") {
					p = rel
				}
			}
			files[p] = f.Data
		}
		res.Files = files
	})
	return res
}

func init() {
	subcommands["gen"] = func(args []string) {
		// vh gen <pipeline.yaml> <destdir>
		if len(args) < 2 {
			fmt.Fprintln(os.Stderr, "usage: vh gen <pipeline.yaml> <destdir>")
			os.Exit(2)
		}
		res := runPipelineFile(args[0], "")
		if res.Panic != nil {
			fmt.Println("PANIC:", res.Panic)
			fmt.Println(res.Stack)
			os.Exit(3)
		}
		if res.Err != nil {
			fmt.Println("ERROR:", res.Err)
			os.Exit(1)
		}
		cwd, _ := os.Getwd()
		for p, b := range res.Files {
			full := p
			if !filepath.IsAbs(full) {
				full = filepath.Join(cwd, p)
			}
			_ = os.MkdirAll(filepath.Dir(full), 0o755)
			_ = os.WriteFile(full, b, 0o644)
		}
		fmt.Println("files:", len(res.Files), "->", args[1])
	}
}
