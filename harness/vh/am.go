package main

import (
	"encoding/json"
	"fmt"
)

// Abstract schema model (AM): what a test schema *means*, independent of the input format.
// Renderers (am_render.go) turn it into JSON Schema draft-07 / OpenAPI 3.0 / CUE; docgen (am_docs.go)
// derives valid and single-fault documents; the reference validators (am_validate.go) judge documents.

type amBound struct {
	V    float64
	Excl bool
}

type amType struct {
	K        string // bool string bytes int float datetime any enum const array map ref struct union
	Width    string // int: int8…uint64 or "" ; float: float32, float64 or ""
	Lo, Hi   *amBound
	MinLen   int // -1 = none
	MaxLen   int
	EnumS    []string
	EnumI    []int64
	Const    any // string | int64 | bool
	Elem     *amType
	Ref      string
	Fields   []*amField
	Branches []*amType // union of scalars (JSON-type distinguishable), or refs for a discriminated union
	Disc     string    // discriminated union: name of the constant field shared by the branch structs
	Nullable bool
	Default  any // JSON-ish (string, bool, json.Number, []any, map[string]any) or nil
	// NullStyle: how JSON Schema spells a nullable unconstrained scalar: "" = oneOf [T, null], "last" = type [T, "null"],
	// "first" = type ["null", T]. Other formats ignore it.
	NullStyle string
}

type amField struct {
	Name     string
	T        *amType
	Required bool
}

type amObject struct {
	Name string
	T    *amType
}

type amSchema struct {
	Pkg  string
	Objs []*amObject
	Tags map[string]int
}

func (s *amSchema) obj(name string) *amObject {
	for _, o := range s.Objs {
		if o.Name == name {
			return o
		}
	}
	return nil
}

// resolve follows object-level aliases.
func (s *amSchema) resolve(t *amType) *amType {
	for i := 0; t != nil && t.K == "ref" && i < 20; i++ {
		o := s.obj(t.Ref)
		if o == nil {
			return t
		}
		t = o.T
	}
	return t
}

// capabilities of a source format (what the AM generator may use).
type amCaps struct {
	Format                   string // jsonschema | openapi | cue | common
	IntWidths                []string
	FloatWidths              []string
	Bytes                    bool
	NonStringConst           bool
	IntEnums                 bool
	NullableRefs             bool
	NullableBool             bool
	EnumDefaults             bool
	StructDefaults           bool
	UnionDefaults            bool
	Unions                   bool
	DiscUnions               bool
	Maps                     bool
	AnonStructs              bool
	DateTime                 bool
	Any                      bool
	Recursive                bool
	NestedCollections        bool // array of array, map of map, …
	Defaults                 bool
	Constraints              bool
	Nullable                 bool
	Consts                   bool
	Enums                    bool
	ObjectLevelNullableUnion bool
}

func capsFor(format string) amCaps {
	c := amCaps{Format: format, Unions: true, DiscUnions: true, Maps: true, AnonStructs: true, DateTime: true, Any: true, Recursive: true,
		NestedCollections: true, Defaults: true, Constraints: true, Nullable: true, Consts: true, Enums: true}
	switch format {
	case "jsonschema":
		c.IntWidths = []string{""}
		c.FloatWidths = []string{""}
		c.NonStringConst = true
		c.IntEnums = true
		c.NullableRefs = true
		c.NullableBool = true
	case "openapi":
		c.IntWidths = []string{"", "int32", "int64"}
		c.FloatWidths = []string{"float32", "float64"}
		c.IntEnums = true
		c.EnumDefaults = true
	case "cue":
		c.IntWidths = []string{"int8", "int16", "int32", "int64", "uint8", "uint16", "uint32", "uint64", ""}
		c.FloatWidths = []string{"float32", "float64", ""}
		c.NonStringConst = true
		c.IntEnums = true
		c.NullableRefs = true
		c.NullableBool = true
		c.EnumDefaults = true
		c.StructDefaults = true
	case "common":
		c.IntWidths = []string{""}
		c.FloatWidths = []string{"float64"}
	}
	return c
}

var amObjNames = []string{"Alpha", "Bravo", "Charlie", "Delta", "Echo", "Foxtrot", "Golf", "Hotel", "India", "Juliet", "Kilo", "Lima"}
var amFieldNames = []string{"title", "count", "ratio", "enabled", "items", "labels", "child", "mode", "amount", "extra", "level", "limit", "when", "payload", "link", "opts", "size", "tags"}

type amGen struct {
	rng  *RNG
	caps amCaps
	s    *amSchema
	// planned objects: name → kind, so that refs can be generated before the target exists
	plan   []amPlan
	unions []*amType
}

type amPlan struct {
	name string
	kind string // struct enumS enumI union disc arr map scalar
}

func (g *amGen) tag(t string) { g.s.Tags[t]++ }

func num(v any) json.Number { return json.Number(fmt.Sprint(v)) }

// genAM builds one schema. profile selects the emphasis: "general", "constraints" (C08), "defaults" (C10),
// "equality" (C13), "builders" (C09/C14).
func genAM(rng *RNG, caps amCaps, pkg string, profile string) *amSchema {
	g := &amGen{rng: rng, caps: caps, s: &amSchema{Pkg: pkg, Tags: map[string]int{}}}
	n := rng.Range(2, 5)
	names := append([]string(nil), amObjNames...)
	shuffle(rng, names)
	for i := 0; i < n; i++ {
		kind := "struct"
		if i > 0 {
			r := rng.Intn(100)
			switch {
			case r < 50:
				kind = "struct"
			case r < 58:
				kind = "alias"
			case r < 70 && caps.Enums:
				kind = "enumS"
			case r < 76 && caps.Enums && caps.IntEnums && caps.Format == "cue":
				kind = "enumI"
			case r < 84 && caps.Unions:
				kind = "union"
			case r < 90:
				kind = "arr"
			case r < 95 && caps.Maps:
				kind = "map"
			}
		}
		g.plan = append(g.plan, amPlan{names[i], kind})
	}
	if caps.DiscUnions && rng.Chance(0.45) {
		k := rng.Range(2, 3)
		fam := []string{"Circle", "Square", "Tri"}[:k]
		for _, f := range fam {
			g.plan = append(g.plan, amPlan{f, "famStruct"})
		}
		g.plan = append(g.plan, amPlan{"Shape", "disc"})
	}
	for _, p := range g.plan {
		g.s.Objs = append(g.s.Objs, &amObject{Name: p.name, T: g.objType(p, profile)})
	}
	return g.s
}

func (g *amGen) objType(p amPlan, profile string) *amType {
	switch p.kind {
	case "struct":
		g.tag("obj:struct")
		return g.structType(2, p.name, profile)
	case "famStruct":
		g.tag("obj:family-struct")
		t := &amType{K: "struct", MinLen: -1, MaxLen: -1}
		t.Fields = append(t.Fields, &amField{Name: "kind", Required: true, T: &amType{K: "const", Const: lowerFirst(p.name), MinLen: -1, MaxLen: -1}})
		n := g.rng.Range(1, 2)
		for i := 0; i < n; i++ {
			t.Fields = append(t.Fields, &amField{Name: fmt.Sprintf("%s%d", lowerFirst(p.name), i), Required: g.rng.Chance(0.6), T: g.scalar(profile)})
		}
		return t
	case "disc":
		g.tag("obj:discriminated-union")
		t := &amType{K: "union", Disc: "kind", MinLen: -1, MaxLen: -1}
		for _, q := range g.plan {
			if q.kind == "famStruct" {
				t.Branches = append(t.Branches, &amType{K: "ref", Ref: q.name, MinLen: -1, MaxLen: -1})
			}
		}
		return t
	case "enumS":
		g.tag("obj:enum-string")
		return g.enum(false)
	case "enumI":
		g.tag("obj:enum-int")
		return g.enum(true)
	case "union":
		g.tag("obj:union-scalars")
		u := g.unionScalars()
		if u.Nullable {
			// object-level `a | b | null` is kept for the C02 workload only (generated Go does not compile)
			if !g.caps.ObjectLevelNullableUnion {
				c := *u
				c.Nullable = false
				u = &c
			}
		}
		return u
	case "alias":
		// an object that is just a reference to an earlier one (`#Panel: #PanelV2`)
		var cands []string
		for _, q := range g.plan {
			if q.name == p.name {
				break
			}
			if q.kind != "famStruct" && q.kind != "alias" {
				cands = append(cands, q.name)
			}
		}
		if len(cands) == 0 {
			return g.structType(2, p.name, profile)
		}
		g.tag("obj:alias")
		return &amType{K: "ref", Ref: pick(g.rng, cands), MinLen: -1, MaxLen: -1}
	case "arr":
		g.tag("obj:array")
		return &amType{K: "array", Elem: g.leafOrRef(p.name, profile, false), MinLen: -1, MaxLen: -1}
	case "map":
		g.tag("obj:map")
		return &amType{K: "map", Elem: g.leafOrRef(p.name, profile, false), MinLen: -1, MaxLen: -1}
	}
	return g.scalar(profile)
}

func (g *amGen) enum(ints bool) *amType {
	t := &amType{K: "enum", MinLen: -1, MaxLen: -1}
	if ints {
		n := g.rng.Range(2, 4)
		for i := 0; i < n; i++ {
			t.EnumI = append(t.EnumI, int64(i*5))
		}
		return t
	}
	words := []string{"red", "green", "blue", "dark", "light", "auto"}
	shuffle(g.rng, words)
	t.EnumS = append(t.EnumS, words[:g.rng.Range(2, 4)]...)
	return t
}

func (g *amGen) unionScalars() *amType {
	// the same union shape is sometimes used twice (passes that name unions reuse the generated object)
	if len(g.unions) > 0 && g.rng.Chance(0.4) {
		prev := pick(g.rng, g.unions)
		cp := &amType{K: "union", MinLen: -1, MaxLen: -1}
		for _, b := range prev.Branches {
			bc := *b
			cp.Branches = append(cp.Branches, &bc)
		}
		cp.Nullable = prev.Nullable
		g.tag("union:reused-shape")
		return cp
	}
	t := g.newUnionScalars()
	if g.caps.Nullable && g.caps.NullableRefs && g.rng.Chance(0.4) {
		t.Nullable = true
		g.tag("union:scalars+null")
	}
	g.unions = append(g.unions, t)
	return t
}

func (g *amGen) newUnionScalars() *amType {
	t := &amType{K: "union", MinLen: -1, MaxLen: -1}
	cands := []*amType{
		{K: "string", MinLen: -1, MaxLen: -1}, {K: "bool", MinLen: -1, MaxLen: -1},
	}
	if g.rng.Bool() {
		cands = append(cands, &amType{K: "int", Width: pickWidth(g.rng, g.caps.IntWidths, "int64"), MinLen: -1, MaxLen: -1})
	} else {
		cands = append(cands, &amType{K: "float", Width: pickWidth(g.rng, g.caps.FloatWidths, "float64"), MinLen: -1, MaxLen: -1})
	}
	shuffle(g.rng, cands)
	t.Branches = cands[:g.rng.Range(2, 3)]
	return t
}

func pickWidth(r *RNG, ws []string, prefer string) string {
	for _, w := range ws {
		if w == prefer {
			return w
		}
	}
	return ws[0]
}

func (g *amGen) structType(depth int, owner string, profile string) *amType {
	t := &amType{K: "struct", MinLen: -1, MaxLen: -1}
	n := g.rng.Range(2, 6)
	names := append([]string(nil), amFieldNames...)
	shuffle(g.rng, names)
	for i := 0; i < n; i++ {
		f := &amField{Name: names[i], T: g.fieldType(depth, owner, profile)}
		f.Required = g.rng.Chance(0.55)
		// a direct self/forward struct reference must be optional (finite documents)
		if f.T.K == "ref" && g.refIsStructural(f.T.Ref) {
			// required struct references must form a DAG (towards objects planned earlier)
			if !g.plannedBefore(f.T.Ref, owner) || g.rng.Chance(0.3) {
				f.Required = false
			}
		}
		if g.caps.Nullable && f.T.K != "union" && g.rng.Chance(0.2) && g.nullableOK(f.T) {
			f.T.Nullable = true
			g.tag("nullable")
			if f.Required {
				g.tag("required+nullable")
			}
		}
		if !f.Required {
			g.tag("optional")
		}
		t.Fields = append(t.Fields, f)
	}
	return t
}

func (g *amGen) plannedBefore(target, owner string) bool {
	for _, p := range g.plan {
		if p.name == owner {
			return false
		}
		if p.name == target {
			return true
		}
	}
	return false
}

func (g *amGen) refIsStructural(name string) bool {
	for _, p := range g.plan {
		if p.name == name {
			return p.kind == "struct" || p.kind == "famStruct" || p.kind == "disc" || p.kind == "alias"
		}
	}
	return false
}

func (g *amGen) nullableOK(t *amType) bool {
	switch t.K {
	case "ref":
		return g.caps.NullableRefs
	case "bool":
		return g.caps.NullableBool
	case "string", "int", "float", "datetime":
		return true
	case "array", "map", "struct", "enum":
		return g.caps.NullableRefs // formats with a real `T | null` construct
	case "union":
		return g.caps.NullableRefs && t.Disc == ""
	}
	return false
}

// refTarget picks an object to reference. Struct recursion is allowed (fields are optional then).
func (g *amGen) refTarget(owner string) (string, bool) {
	var cands []amPlan
	for _, p := range g.plan {
		if p.kind == "famStruct" {
			continue
		}
		if !g.caps.Recursive && p.name == owner {
			continue
		}
		// non-struct objects may only reference earlier ones (no alias cycles): handled by caller
		cands = append(cands, p)
	}
	if len(cands) == 0 {
		return "", false
	}
	return pick(g.rng, cands).name, true
}

func (g *amGen) leafOrRef(owner string, profile string, allowRecursion bool) *amType {
	if g.rng.Chance(0.4) {
		// only reference objects planned *before* owner when owner is not a struct (alias cycle freedom)
		var cands []string
		for _, p := range g.plan {
			if p.name == owner {
				break
			}
			if p.kind != "famStruct" {
				cands = append(cands, p.name)
			}
		}
		if len(cands) > 0 {
			g.tag("ref")
			return &amType{K: "ref", Ref: pick(g.rng, cands), MinLen: -1, MaxLen: -1}
		}
	}
	return g.scalar(profile)
}

func (g *amGen) fieldType(depth int, owner string, profile string) *amType {
	r := g.rng.Intn(100)
	switch {
	case r < 38:
		return g.scalar(profile)
	case r < 55:
		if name, ok := g.refTarget(owner); ok {
			g.tag("ref")
			if name == owner {
				g.tag("ref:self")
			}
			t := &amType{K: "ref", Ref: name, MinLen: -1, MaxLen: -1}
			if g.caps.Defaults && g.caps.StructDefaults && g.rng.Chance(0.5) {
				// CUE: `#Mode & (*"b" | _)` and `#Struct | *{…}`
				for _, q := range g.plan {
					if q.name != name {
						continue
					}
					if o := g.s.obj(name); o != nil && q.kind == "enumS" && len(o.T.EnumS) > 0 {
						t.Default = o.T.EnumS[g.rng.Intn(len(o.T.EnumS))]
						g.tag("default:enum-ref")
					}
				}
			}
			return t
		}
		return g.scalar(profile)
	case r < 68:
		g.tag("array")
		at := &amType{K: "array", Elem: g.elemType(depth, owner, profile), MinLen: -1, MaxLen: -1}
		if g.caps.Defaults && profile == "defaults" && at.Elem.Default == nil && g.rng.Chance(0.5) {
			switch at.Elem.K {
			case "string":
				if at.Elem.MinLen <= 1 && (at.Elem.MaxLen < 0 || at.Elem.MaxLen >= 2) {
					at.Default = []any{"a", "bc"}
					g.tag("default:list-of-strings")
				}
			case "int":
				if at.Elem.Lo == nil && at.Elem.Hi == nil {
					at.Default = []any{num(1), num(2)}
					g.tag("default:list-of-ints")
				}
			case "bool":
				at.Default = []any{true, false}
				g.tag("default:list-of-bools")
			}
		}
		return at
	case r < 77:
		if g.caps.Maps {
			g.tag("map")
			return &amType{K: "map", Elem: g.elemType(depth, owner, profile), MinLen: -1, MaxLen: -1}
		}
	case r < 85:
		if g.caps.AnonStructs && depth > 0 {
			g.tag("anon-struct")
			return g.structType(depth-1, owner, profile)
		}
	case r < 90:
		if g.caps.Enums {
			g.tag("anon-enum")
			t := g.enum(false)
			if g.caps.Defaults && g.caps.EnumDefaults && g.rng.Chance(0.4) {
				t.Default = t.EnumS[g.rng.Intn(len(t.EnumS))]
				g.tag("default:enum")
			}
			return t
		}
	case r < 95:
		if g.caps.Unions {
			g.tag("union-scalars")
			return g.unionScalars()
		}
	default:
		if g.caps.Consts {
			g.tag("const")
			return &amType{K: "const", Const: pick(g.rng, []string{"fixed", "v1", "on"}), MinLen: -1, MaxLen: -1}
		}
	}
	return g.scalar(profile)
}

func (g *amGen) elemType(depth int, owner string, profile string) *amType {
	r := g.rng.Intn(100)
	switch {
	case r < 45:
		return g.scalar(profile)
	case r < 70:
		if name, ok := g.refTarget(owner); ok {
			g.tag("collection-of-ref")
			return &amType{K: "ref", Ref: name, MinLen: -1, MaxLen: -1}
		}
	case r < 82:
		if g.caps.NestedCollections && depth > 0 {
			g.tag("nested-collection")
			if g.rng.Bool() || !g.caps.Maps {
				return &amType{K: "array", Elem: g.elemType(depth-1, owner, profile), MinLen: -1, MaxLen: -1}
			}
			return &amType{K: "map", Elem: g.elemType(depth-1, owner, profile), MinLen: -1, MaxLen: -1}
		}
	case r < 92:
		if g.caps.AnonStructs && depth > 0 {
			g.tag("collection-of-anon-struct")
			return g.structType(depth-1, owner, profile)
		}
	}
	return g.scalar(profile)
}

func (g *amGen) scalar(profile string) *amType {
	t := &amType{MinLen: -1, MaxLen: -1}
	r := g.rng.Intn(100)
	constraintP, defaultP := 0.3, 0.25
	switch profile {
	case "constraints":
		constraintP = 0.8
		defaultP = 0.05
	case "defaults":
		defaultP = 0.7
		constraintP = 0.1
	}
	if !g.caps.Constraints {
		constraintP = 0
	}
	if !g.caps.Defaults {
		defaultP = 0
	}
	switch {
	case r < 28:
		t.K = "string"
		if g.rng.Chance(constraintP) {
			if g.rng.Bool() {
				t.MinLen = g.rng.Range(1, 3)
			}
			if g.rng.Bool() || t.MinLen < 0 {
				t.MaxLen = g.rng.Range(4, 9)
			}
			g.tag("string+length")
		}
		if g.rng.Chance(defaultP) {
			t.Default = "dflt"
			if g.rng.Chance(0.25) && t.MinLen <= 0 {
				t.Default = "" // falsy defaults are still defaults
			}
			g.tag("default:string")
		}
	case r < 40:
		t.K = "bool"
		if g.rng.Chance(defaultP) {
			t.Default = g.rng.Bool()
			g.tag("default:bool")
		}
	case r < 65:
		t.K = "int"
		t.Width = pick(g.rng, g.caps.IntWidths)
		g.tag("int:" + t.Width)
		if g.rng.Chance(constraintP) {
			lo, hi := g.rng.Range(0, 5), g.rng.Range(20, 100)
			if g.rng.Chance(0.7) {
				t.Lo = &amBound{V: float64(lo), Excl: g.rng.Chance(0.3)}
			}
			if g.rng.Chance(0.7) || t.Lo == nil {
				t.Hi = &amBound{V: float64(hi), Excl: g.rng.Chance(0.3)}
			}
			g.tag("int+bounds")
			if g.caps.Format == "cue" && t.Lo != nil && t.Hi != nil && !g.rng.Chance(0.08) {
				t.Width = ""
			}
		}
		if g.rng.Chance(defaultP) {
			t.Default = num(g.rng.Range(6, 19))
			if g.rng.Chance(0.25) && t.Lo == nil && t.Hi == nil {
				t.Default = num(0)
			}
			g.tag("default:int")
		}
	case r < 82:
		t.K = "float"
		t.Width = pick(g.rng, g.caps.FloatWidths)
		g.tag("float:" + t.Width)
		if g.rng.Chance(constraintP) {
			if g.rng.Chance(0.7) {
				t.Lo = &amBound{V: float64(g.rng.Range(0, 3)) + 0.5, Excl: g.rng.Chance(0.3)}
			}
			if g.rng.Chance(0.7) || t.Lo == nil {
				t.Hi = &amBound{V: float64(g.rng.Range(50, 90)) + 0.25, Excl: g.rng.Chance(0.3)}
			}
			g.tag("float+bounds")
			// CUE drops `float64`/`float32` from `float64 & >=a & <=b` (both bounds tighter than the
			// width's own), and cog then fails with "could not infer number type" (known finding):
			// use the width-less `float` for most two-sided bounds so that such schemas stay usable.
			if g.caps.Format == "cue" && t.Lo != nil && t.Hi != nil && !g.rng.Chance(0.08) {
				t.Width = ""
			}
		}
		if g.rng.Chance(defaultP) {
			t.Default = num(fmt.Sprintf("%d.5", g.rng.Range(4, 40)))
			g.tag("default:float")
		}
	case r < 88:
		if g.caps.DateTime {
			t.K = "datetime"
			g.tag("datetime")
			break
		}
		t.K = "string"
	case r < 94:
		if g.caps.Any {
			t.K = "any"
			g.tag("any")
			break
		}
		t.K = "string"
	default:
		if g.caps.Bytes {
			t.K = "bytes"
			g.tag("bytes")
			break
		}
		t.K = "string"
	}
	return t
}
