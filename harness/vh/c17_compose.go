package main

import (
	"fmt"
	"os"
	"path/filepath"
	"strings"

	"github.com/grafana/cog/internal/ast"
	"github.com/grafana/cog/internal/veneers/rewrite"
	cogyaml "github.com/grafana/cog/internal/yaml"
)

// C17 — the `compose` builder rule over Grafana-plugin shaped schemas: a generic `dashboard.Panel` with `any`
// slots and several "composable" plugin schemas, each with an Options and a FieldConfig object (plus one the
// composition map does not name). The rule is loaded from YAML and applied by the real rewriter; the result is
// judged by (i) the well-typedness walker, which follows the type hint of an `any` slot, and (ii) the rule's
// documented contract: one composed builder per plugin, the discriminator pinned in its constructor, every
// option of a composed builder re-rooted under the mapped path with a hint naming the object it came from.

type composePlugin struct {
	pkg        string
	objects    map[string][]string // object name → field names
	entrypoint string
}

func composePlugins(rng *RNG, n int) []composePlugin {
	names := []string{"timeseries", "gauge", "text", "stat", "table"}
	var out []composePlugin
	for i := 0; i < n; i++ {
		p := composePlugin{pkg: names[i], objects: map[string][]string{}}
		for _, obj := range []string{"Options", "FieldConfig", "Legend"} {
			k := rng.Range(1, 3)
			for f := 0; f < k; f++ {
				p.objects[obj] = append(p.objects[obj], fmt.Sprintf("%s%s%d", strings.ToLower(obj[:1]), names[i][:2], f))
			}
		}
		out = append(out, p)
	}
	return out
}

func composeSchemas(plugins []composePlugin, deepSlot bool, entrypoint string) ast.Schemas {
	dashboard := ast.NewSchema("dashboard", ast.SchemaMeta{})
	fieldConfig := ast.NewStructField("fieldConfig", ast.Any())
	if deepSlot {
		dashboard.AddObject(ast.NewObject("dashboard", "FieldConfigSource", ast.NewStruct(
			ast.NewStructField("defaults", ast.NewRef("dashboard", "FieldDefaults")),
		)))
		dashboard.AddObject(ast.NewObject("dashboard", "FieldDefaults", ast.NewStruct(
			ast.NewStructField("unit", ast.String()),
			ast.NewStructField("custom", ast.Any()),
		)))
		fieldConfig = ast.NewStructField("fieldConfig", ast.NewRef("dashboard", "FieldConfigSource"))
	}
	dashboard.AddObject(ast.NewObject("dashboard", "Panel", ast.NewStruct(
		ast.NewStructField("type", ast.String()),
		ast.NewStructField("title", ast.String()),
		ast.NewStructField("options", ast.Any()),
		fieldConfig,
	)))
	schemas := ast.Schemas{dashboard}
	for _, p := range plugins {
		s := ast.NewSchema(p.pkg, ast.SchemaMeta{Kind: ast.SchemaKindComposable, Variant: ast.SchemaVariantPanel, Identifier: p.pkg})
		for _, obj := range []string{"Options", "FieldConfig", "Legend"} {
			var fields []ast.StructField
			for i, f := range p.objects[obj] {
				t := ast.String()
				if i%2 == 1 {
					t = ast.NewScalar(ast.KindInt64)
				}
				fields = append(fields, ast.NewStructField(f, t))
			}
			s.AddObject(ast.NewObject(p.pkg, obj, ast.NewStruct(fields...)))
		}
		if entrypoint != "" {
			s.EntryPoint = entrypoint
			s.EntryPointType = ast.NewRef(p.pkg, entrypoint)
		}
		schemas = append(schemas, s)
	}
	return schemas
}

func refOfHint(t *ast.Type) string {
	if t == nil || t.Kind != ast.KindRef || t.Ref == nil {
		return "<none>"
	}
	return t.Ref.ReferredPkg + "." + t.Ref.ReferredType
}

func composePathIdents(p ast.Path) string {
	var parts []string
	for _, it := range p {
		if it.Root {
			continue
		}
		parts = append(parts, it.Identifier)
	}
	return strings.Join(parts, ".")
}

func checkC17Compose(r *Run) {
	n := r.n(24, 300)
	dir, _ := os.MkdirTemp(scratchDir(), "c17c-")
	defer os.RemoveAll(dir)
	for c := 0; c < n; c++ {
		rng := newRNG("C17-compose", r.Seed, c)
		plugins := composePlugins(rng, rng.Range(2, 4))
		deep := c%2 == 1
		preserve := c%4 >= 2
		composedName := ""
		if c%3 == 2 {
			composedName = "PanelBuilder"
		}
		cmap := map[string]string{"Options": "options", "FieldConfig": "fieldConfig"}
		if deep {
			cmap["FieldConfig"] = "fieldConfig.defaults.custom"
		}
		if c%5 == 4 {
			delete(cmap, "FieldConfig") // a single composed builder per plugin
		}
		// every third case names the Options object through the schema's (struct) entry point instead
		entrypoint := ""
		if c%3 == 1 {
			entrypoint = "Options"
			cmap["__schema_entrypoint"] = cmap["Options"]
			delete(cmap, "Options")
		}
		schemas := composeSchemas(plugins, deep, entrypoint)
		// eff: object → path its builder is composed under; direct: objects the map names themselves
		eff, direct := map[string]string{}, map[string]bool{}
		for k, v := range cmap {
			if k == "__schema_entrypoint" {
				eff[entrypoint] = v
			} else {
				eff[k] = v
				direct[k] = true
			}
		}
		lang := []string{"go", "typescript", "python", "java", "php"}[c%5]
		var builders []ast.Builder
		if pv, _ := guard(func() { builders = (&ast.BuilderGenerator{}).FromAST(schemas) }); pv != nil {
			r.CaseInconclusive("BuilderGenerator panicked on the compose schemas")
			continue
		}
		var sb strings.Builder
		fmt.Fprintf(&sb, "language: all\npackage: dashboard\nbuilders:\n  - compose:\n      by_variant: panelcfg\n      source_builder_name: dashboard.Panel\n      plugin_discriminator_field: type\n")
		if preserve {
			sb.WriteString("      preserve_original_builders: true\n")
		}
		if composedName != "" {
			fmt.Fprintf(&sb, "      composed_builder_name: %s\n", composedName)
		}
		exclude := c%7 == 3
		if exclude {
			sb.WriteString("      exclude_options: [title]\n")
		}
		sb.WriteString("      composition_map:\n")
		for _, k := range sortedKeys(cmap) {
			fmt.Fprintf(&sb, "        %s: %s\n", k, cmap[k])
		}
		sb.WriteString("options: []\n")
		f := filepath.Join(dir, fmt.Sprintf("compose-%d.yaml", c))
		_ = os.WriteFile(f, []byte(sb.String()), 0o644)
		rewriter, err := cogyaml.NewVeneersLoader().RewriterFrom([]string{f}, rewrite.Config{})
		if err != nil {
			r.CaseInconclusive("compose veneer rejected: " + err.Error())
			continue
		}
		before := snapshotBuilders(builders)
		var after ast.Builders
		var aerr error
		pv, _ := guard(func() { after, aerr = rewriter.ApplyTo(schemas, builders, lang) })
		r.Eval()
		replay := map[string]any{"veneers": sb.String(), "language": lang, "input_ir": mustJSON(schemas)}
		ctx := fmt.Sprintf("[compose case %d, %s, %d plugins, deep=%v preserve=%v entrypoint=%q exclude=%v]", c, lang, len(plugins), deep, preserve, entrypoint, exclude)
		if pv != nil || aerr != nil {
			r.Violation("veneer/builder.compose/failed", fmt.Sprintf("the compose rule failed on plugin-shaped schemas: panic=%v err=%v %s", pv, aerr, ctx), replay)
			continue
		}
		r.Distinct(sb.String() + mustJSON(schemas))
		r.Count("rule/builder.compose", 1)
		if entrypoint != "" {
			r.Count("compose.struct_entrypoint_cases", 1)
		}
		for _, p := range wellTypedProblems(schemas, after) {
			r.Violation("veneer/builder.compose/ill-typed/"+p.class, fmt.Sprintf("%s: %s %s", p.where, p.detail, ctx), replay)
		}
		origOf := func(pkg, obj string) *ast.Builder {
			for i := range before {
				if before[i].Package == pkg && before[i].For.Name == obj && before[i].For.SelfRef.ReferredPkg == pkg {
					return &before[i]
				}
			}
			return nil
		}
		source := origOf("dashboard", "Panel")
		if source == nil {
			r.CaseInconclusive("no builder for dashboard.Panel")
			continue
		}
		wantName := "Panel"
		if composedName != "" {
			wantName = composedName
		}
		for _, p := range plugins {
			var composed []*ast.Builder
			for i := range after {
				if after[i].Package == p.pkg && after[i].For.SelfRef.ReferredPkg == "dashboard" && after[i].For.Name == "Panel" {
					composed = append(composed, &after[i])
				}
			}
			if len(composed) != 1 {
				r.Violation("veneer/builder.compose/contract/composed-builder-count", fmt.Sprintf("plugin %s has %d composed builders for dashboard.Panel, expected exactly 1 %s", p.pkg, len(composed), ctx), replay)
				continue
			}
			cb := composed[0]
			if cb.Name != wantName {
				r.Violation("veneer/builder.compose/contract/name", fmt.Sprintf("composed builder of %s is named %q, expected %q %s", p.pkg, cb.Name, wantName, ctx), replay)
			}
			// the discriminator is pinned to the plugin's identifier
			pinned := 0
			for _, a := range cb.Constructor.Assignments {
				if composePathIdents(a.Path) == "type" && a.Value.Constant != nil {
					pinned++
					if fmt.Sprint(a.Value.Constant) != p.pkg {
						r.Violation("veneer/builder.compose/contract/discriminator", fmt.Sprintf("composed builder of %s pins type=%v %s", p.pkg, a.Value.Constant, ctx), replay)
					}
				}
			}
			if pinned != 1 {
				r.Violation("veneer/builder.compose/contract/discriminator", fmt.Sprintf("composed builder of %s pins the discriminator %d times %s", p.pkg, pinned, ctx), replay)
			}
			// source options (all but the discriminator) survive, in order, unchanged
			var wantOpts []string
			for _, o := range source.Options {
				if o.Name != "type" && !(exclude && o.Name == "title") {
					wantOpts = append(wantOpts, "src:"+canonOption(o))
				}
			}
			if _, still := cb.OptionByName("title"); exclude && still {
				r.Violation("veneer/builder.compose/contract/excluded-option-present", fmt.Sprintf("composed %s builder still has the option `title` listed in exclude_options %s", p.pkg, ctx), replay)
			}
			if _, still := cb.OptionByName("type"); still {
				r.Violation("veneer/builder.compose/contract/discriminator-option-present", fmt.Sprintf("composed %s builder still offers an option for the pinned discriminator %s", p.pkg, ctx), replay)
			}
			// composed options: re-rooted, hinted
			seenFromObj := map[string]int{}
			for _, o := range cb.Options {
				for ai, a := range o.Assignments {
					ids := composePathIdents(a.Path)
					for obj, under := range eff {
						if !strings.HasPrefix(ids, under+".") {
							continue
						}
						rest := strings.TrimPrefix(ids, under+".")
						orig := origOf(p.pkg, obj)
						if orig == nil {
							continue
						}
						var origOpt *ast.Option
						for oi := range orig.Options {
							if orig.Options[oi].Name == o.Name {
								origOpt = &orig.Options[oi]
							}
						}
						if origOpt == nil {
							// the option was composed from another object mapped under a path with the same prefix
							continue
						}
						if ai >= len(origOpt.Assignments) || composePathIdents(origOpt.Assignments[ai].Path) != rest {
							continue
						}
						seenFromObj[obj]++
						var nonRoot []ast.PathItem
						for _, it := range a.Path {
							if !it.Root {
								nonRoot = append(nonRoot, it)
							}
						}
						slot := nonRoot[len(strings.Split(under, "."))-1]
						if got, want := refOfHint(slot.TypeHint), p.pkg+"."+obj; got != want {
							r.Violation("veneer/builder.compose/contract/type-hint", fmt.Sprintf("option %s of the composed %s builder assigns %s: the `any` slot %q is hinted as %s, but the member comes from %s %s", o.Name, p.pkg, ids, under, got, want, ctx), replay)
						}
						if !sameTypeShape(a.Path[len(a.Path)-1].Type, origOpt.Assignments[ai].Path[len(origOpt.Assignments[ai].Path)-1].Type) {
							r.Violation("veneer/builder.compose/contract/member-type", fmt.Sprintf("option %s of the composed %s builder: the re-rooted path %s changed the member's type %s", o.Name, p.pkg, ids, ctx), replay)
						}
					}
				}
			}
			for obj := range eff {
				orig := origOf(p.pkg, obj)
				want := 0
				if orig != nil {
					for _, o := range orig.Options {
						want += len(o.Assignments)
					}
				}
				if seenFromObj[obj] != want {
					r.Violation("veneer/builder.compose/contract/options-lost", fmt.Sprintf("composed %s builder carries %d of the %d assignments of %s.%s under %q %s", p.pkg, seenFromObj[obj], want, p.pkg, obj, eff[obj], ctx), replay)
				}
			}
			got := 0
			for _, o := range cb.Options {
				for _, w := range wantOpts {
					if w == "src:"+canonOption(o) {
						got++
						break
					}
				}
			}
			if got != len(wantOpts) {
				r.Violation("veneer/builder.compose/contract/source-options", fmt.Sprintf("composed %s builder keeps %d of the %d options of the source builder unchanged %s", p.pkg, got, len(wantOpts), ctx), replay)
			}
			// frame: builders the map does not name stay as they were; mapped ones stay only when preserved
			for _, obj := range []string{"Options", "FieldConfig", "Legend"} {
				orig := origOf(p.pkg, obj)
				var now *ast.Builder
				for i := range after {
					if after[i].Package == p.pkg && after[i].For.Name == obj && after[i].For.SelfRef.ReferredPkg == p.pkg {
						now = &after[i]
					}
				}
				mapped := direct[obj] // an object composed through the entry point keeps its own builder
				switch {
				case (!mapped || preserve) && now == nil:
					r.Violation("veneer/builder.compose/frame/builder-lost", fmt.Sprintf("builder %s.%s disappeared (mapped=%v, preserve_original_builders=%v) %s", p.pkg, obj, mapped, preserve, ctx), replay)
				case mapped && !preserve && now != nil:
					r.Violation("veneer/builder.compose/contract/original-kept", fmt.Sprintf("builder %s.%s was composed but is still present without preserve_original_builders %s", p.pkg, obj, ctx), replay)
				case now != nil && orig != nil && canonBuilder(*now) != canonBuilder(*orig):
					r.Violation("veneer/builder.compose/frame/builder-changed", fmt.Sprintf("builder %s.%s was changed by the compose rule %s", p.pkg, obj, ctx), replay)
				}
			}
		}
		// the source builder and its package are left alone
		var src *ast.Builder
		for i := range after {
			if after[i].Package == "dashboard" && after[i].For.Name == "Panel" {
				src = &after[i]
			}
		}
		if src == nil || canonBuilder(*src) != canonBuilder(*source) {
			r.Violation("veneer/builder.compose/frame/source-builder", "the source builder dashboard.Panel was changed or dropped by the compose rule "+ctx, replay)
		}
		if c < 1 {
			r.Sample(map[string]any{"language": lang, "veneers": sb.String(), "plugins": len(plugins)})
		}
	}
}
