package main

import (
	"bytes"
	"context"
	"encoding/json"
	"fmt"
	"os"
	"path/filepath"
	"strings"

	"github.com/getkin/kin-openapi/openapi3"
	"github.com/grafana/cog/internal/ast"
	"github.com/grafana/cog/internal/codegen"
	"github.com/grafana/cog/internal/languages"
	jsonschema "github.com/santhosh-tekuri/jsonschema/v5"
)

// C12 — emitted JSON Schema / OpenAPI describe the same documents as the generated types.

func init() { register("C12", checkC12) }

func collectJSONRefs(v any, out *[]string) {
	switch x := v.(type) {
	case map[string]any:
		for k, e := range x {
			if k == "$ref" {
				if s, ok := e.(string); ok {
					*out = append(*out, s)
				}
			}
			collectJSONRefs(e, out)
		}
	case []any:
		for _, e := range x {
			collectJSONRefs(e, out)
		}
	}
}

// c12Structure compares an emitted document with the IR it was generated from.
// kind = jsonschema | openapi ; defs = the definitions / components.schemas object.
func c12Structure(r *Run, kind string, schema *ast.Schema, doc map[string]any, replay map[string]any, tag string) {
	var defs map[string]any
	if kind == "jsonschema" {
		defs, _ = doc["definitions"].(map[string]any)
	} else {
		comps, _ := doc["components"].(map[string]any)
		defs, _ = comps["schemas"].(map[string]any)
	}
	prefix := "#/definitions/"
	if kind == "openapi" {
		prefix = "#/components/schemas/"
	}
	var refs []string
	collectJSONRefs(doc, &refs)
	for _, ref := range refs {
		if !strings.HasPrefix(ref, prefix) {
			r.Violation(kind+"/foreign-ref-format/"+tag, "unexpected $ref "+ref, replay)
			continue
		}
		if _, ok := defs[strings.TrimPrefix(ref, prefix)]; !ok {
			r.Violation(kind+"/unresolved-ref/"+tag, fmt.Sprintf("$ref %s names no definition (definitions: %v)", ref, sortedKeys(defs)), replay)
			return
		}
	}
	schema.Objects.Iterate(func(_ string, o ast.Object) {
		d, ok := defs[o.Name].(map[string]any)
		if !ok {
			r.Violation(kind+"/object-missing/"+tag, fmt.Sprintf("IR object %s does not appear under its own name (definitions: %v)", o.Name, sortedKeys(defs)), replay)
			return
		}
		if o.Type.Kind != ast.KindStruct || o.Type.Struct == nil {
			return
		}
		props, _ := d["properties"].(map[string]any)
		var wantReq []string
		for _, f := range o.Type.Struct.Fields {
			if f.Required {
				wantReq = append(wantReq, f.Name)
			}
			p, ok := props[f.Name].(map[string]any)
			if !ok {
				r.Violation(kind+"/field-missing/"+tag, fmt.Sprintf("field %s.%s does not appear under its own name", o.Name, f.Name), replay)
				continue
			}
			c12Field(r, kind, o.Name+"."+f.Name, f.Type, p, replay, tag)
			c12FieldMeta(r, kind, o.Name+"."+f.Name, f, p, replay, tag)
		}
		var gotReq []string
		if l, ok := d["required"].([]any); ok {
			for _, e := range l {
				gotReq = append(gotReq, fmt.Sprint(e))
			}
		}
		if strings.Join(sortedCopy(gotReq), ",") != strings.Join(sortedCopy(wantReq), ",") {
			r.Violation(kind+"/required-differs/"+tag, fmt.Sprintf("%s: required %v, IR says %v", o.Name, gotReq, wantReq), replay)
		}
	})
}

func sortedCopy(s []string) []string {
	c := append([]string(nil), s...)
	for i := range c {
		for j := i + 1; j < len(c); j++ {
			if c[j] < c[i] {
				c[i], c[j] = c[j], c[i]
			}
		}
	}
	return c
}

func numEq(a any, b any) bool {
	ja, _ := parseJSONNum(mustJSONBytes(a))
	jb, _ := parseJSONNum(mustJSONBytes(b))
	return jsonDiff(ja, jb, jsonCmpOpts{}, "") == ""
}

// c12Field: constraints, enum values and defaults carried over unchanged.
func c12Field(r *Run, kind, where string, t ast.Type, p map[string]any, replay map[string]any, tag string) {
	if t.Default != nil {
		if dv, ok := p["default"]; !ok {
			r.Violation(kind+"/default-dropped/"+string(t.Kind)+"/"+tag, fmt.Sprintf("%s: IR default %v is not emitted", where, t.Default), replay)
		} else if !numEq(dv, t.Default) {
			r.Violation(kind+"/default-altered/"+string(t.Kind)+"/"+tag, fmt.Sprintf("%s: default %s, IR says %v", where, short(dv), t.Default), replay)
		}
	}
	switch t.Kind {
	case ast.KindScalar:
		if t.Scalar == nil {
			return
		}
		for _, c := range t.Scalar.Constraints {
			if len(c.Args) == 0 {
				continue
			}
			key := map[ast.Op]string{ast.MinLengthOp: "minLength", ast.MaxLengthOp: "maxLength", ast.GreaterThanEqualOp: "minimum", ast.LessThanEqualOp: "maximum", ast.GreaterThanOp: "exclusiveMinimum", ast.LessThanOp: "exclusiveMaximum"}[c.Op]
			if key == "" {
				continue
			}
			gv, ok := p[key]
			if !ok {
				r.Violation(kind+"/constraint-dropped/"+key+"/"+tag, fmt.Sprintf("%s: constraint %s %v is not emitted (%s)", where, c.Op, c.Args[0], short(p)), replay)
				continue
			}
			if b, isBool := gv.(bool); isBool && b {
				// OpenAPI 3.0 boolean form: the bound itself is under minimum/maximum
				alt := map[string]string{"exclusiveMinimum": "minimum", "exclusiveMaximum": "maximum"}[key]
				gv = p[alt]
			}
			if !numEq(gv, c.Args[0]) {
				r.Violation(kind+"/constraint-altered/"+key+"/"+tag, fmt.Sprintf("%s: %s is %s, IR says %v", where, key, short(gv), c.Args[0]), replay)
			}
		}
		if t.Scalar.Value != nil {
			cv, ok := p["const"]
			if ev, isEnum := p["enum"].([]any); !ok && isEnum && len(ev) == 1 {
				cv, ok = ev[0], true // a one-member enum says the same
			}
			switch {
			case !ok:
				r.Violation(kind+"/constant-dropped/"+tag, fmt.Sprintf("%s: the IR holds the constant %v, the emitted definition has no const (%s)", where, t.Scalar.Value, short(p)), replay)
			case !numEq(cv, t.Scalar.Value):
				r.Violation(kind+"/constant-altered/"+tag, fmt.Sprintf("%s: const %s, IR says %v", where, short(cv), t.Scalar.Value), replay)
			}
		}
	case ast.KindEnum:
		if t.Enum == nil {
			return
		}
		ev, ok := p["enum"].([]any)
		if !ok {
			r.Violation(kind+"/enum-values-dropped/"+tag, fmt.Sprintf("%s: no enum keyword (%s)", where, short(p)), replay)
			return
		}
		if len(ev) != len(t.Enum.Values) {
			r.Violation(kind+"/enum-values-differ/"+tag, fmt.Sprintf("%s: %s vs %d IR members", where, short(ev), len(t.Enum.Values)), replay)
			return
		}
		for i, m := range t.Enum.Values {
			if !numEq(ev[i], m.Value) {
				r.Violation(kind+"/enum-values-differ/"+tag, fmt.Sprintf("%s: member %d is %s, IR says %v", where, i, short(ev[i]), m.Value), replay)
			}
		}
	case ast.KindDisjunction:
		if t.Disjunction == nil {
			return
		}
		branches, ok := p["anyOf"].([]any)
		if !ok {
			if _, isRef := p["$ref"]; !isRef {
				r.Violation(kind+"/union-branches-dropped/"+tag, fmt.Sprintf("%s: no anyOf keyword for a union of %d branches (%s)", where, len(t.Disjunction.Branches), short(p)), replay)
			}
			return
		}
		if len(branches) != len(t.Disjunction.Branches) {
			r.Violation(kind+"/union-branches-differ/"+tag, fmt.Sprintf("%s: %d anyOf branches, the IR union has %d (%s)", where, len(branches), len(t.Disjunction.Branches), short(p)), replay)
			return
		}
		for i, b := range t.Disjunction.Branches {
			if bp, ok := branches[i].(map[string]any); ok {
				c12Field(r, kind, fmt.Sprintf("%s|%d", where, i), b, bp, replay, tag)
			}
		}
	case ast.KindArray:
		if items, ok := p["items"].(map[string]any); ok && t.Array != nil {
			c12Field(r, kind, where+"[]", t.Array.ValueType, items, replay, tag)
		}
	case ast.KindMap:
		// object keys are strings: a propertyNames schema that no string satisfies makes every non-empty map invalid
		if pn, ok := p["propertyNames"].(map[string]any); ok {
			if ty, has := pn["type"]; has && fmt.Sprint(ty) != "string" {
				r.Violation(kind+"/map-keys-unsatisfiable/"+tag, fmt.Sprintf("%s: propertyNames %s can not be satisfied by any JSON object key", where, short(pn)), replay)
			}
		}
		if ap, ok := p["additionalProperties"].(map[string]any); ok && t.Map != nil {
			c12Field(r, kind, where+"{}", t.Map.ValueType, ap, replay, tag)
		}
	case ast.KindStruct:
		if t.Struct == nil {
			return
		}
		props, _ := p["properties"].(map[string]any)
		for _, f := range t.Struct.Fields {
			if fp, ok := props[f.Name].(map[string]any); ok {
				c12Field(r, kind, where+"."+f.Name, f.Type, fp, replay, tag)
				c12FieldMeta(r, kind, where+"."+f.Name, f, fp, replay, tag)
			} else {
				r.Violation(kind+"/field-missing/"+tag, fmt.Sprintf("nested field %s.%s does not appear under its own name", where, f.Name), replay)
			}
		}
	}
}

// c12FieldMeta: a property carries its own field's description and default, nobody else's.
func c12FieldMeta(r *Run, kind, where string, f ast.StructField, p map[string]any, replay map[string]any, tag string) {
	want := strings.Join(f.Comments, "\n")
	got, has := p["description"].(string)
	if want != got {
		r.Violation(kind+"/field-description-differs/"+tag, fmt.Sprintf("%s: description %q, the IR field's comments are %q (present=%v)", where, got, want, has), replay)
	}
	if f.Type.Default == nil {
		if dv, ok := p["default"]; ok {
			r.Violation(kind+"/default-invented/"+string(f.Type.Kind)+"/"+tag, fmt.Sprintf("%s: default %s is emitted, the IR field has none", where, short(dv)), replay)
		}
	}
}

// c12Loaders: independent loaders + cog's own parser on an emitted file.
func c12Loaders(r *Run, kind string, raw []byte, dir string, replay map[string]any, tag string) *jsonschema.Compiler {
	var comp *jsonschema.Compiler
	switch kind {
	case "jsonschema":
		comp = jsonschema.NewCompiler()
		comp.Draft = jsonschema.Draft7
		if err := comp.AddResource("emitted.json", bytes.NewReader(raw)); err != nil {
			r.Violation("jsonschema/independent-loader-rejects/"+tag, err.Error(), replay)
			return nil
		}
		if _, err := comp.Compile("emitted.json"); err != nil {
			r.Violation("jsonschema/independent-loader-rejects/"+maskMsg(lastLine(err.Error()))+"/"+tag, fmt.Sprintf("santhosh-tekuri/jsonschema (draft-07) rejects the emitted schema: %v", err), replay)
			return nil
		}
	case "openapi":
		loader := openapi3.NewLoader()
		doc, err := loader.LoadFromData(raw)
		if err != nil {
			r.Violation("openapi/independent-loader-rejects/"+maskMsg(lastLine(err.Error()))+"/"+tag, fmt.Sprintf("kin-openapi cannot load the emitted document: %v", err), replay)
			return nil
		}
		if err := doc.Validate(context.Background(), openapi3.DisableExamplesValidation()); err != nil {
			r.Violation("openapi/independent-validation-fails/"+maskMsg(firstLine(err.Error()))+"/"+tag, fmt.Sprintf("kin-openapi Validate fails on the emitted document: %v", err), replay)
		}
	}
	// cog's own parser
	f := filepath.Join(dir, "emitted-"+kind+".json")
	_ = os.WriteFile(f, raw, 0o644)
	cfg := pipeCfg{Inputs: []pipeInput{{Kind: kind, Path: f, Package: "back"}}, Types: true, OutDir: filepath.Join(dir, "o"), Langs: []langCfg{{Name: "typescript"}}}
	pf := filepath.Join(dir, "back-"+kind+".yaml")
	_ = os.WriteFile(pf, []byte(cfg.YAML()), 0o644)
	var perr error
	pv, stack := guard(func() {
		p, err := codegen.PipelineFromFile(pf, codegen.Parameters(nil))
		if err != nil {
			perr = err
			return
		}
		_, perr = p.LoadSchemas(context.Background())
	})
	if pv != nil {
		r.Violation(kind+"/cog-parser-panics-on-own-output@"+topCogFrame(stack)+"/"+tag, fmt.Sprint(pv), replay)
	} else if perr != nil {
		r.Violation(kind+"/cog-parser-rejects-own-output/"+maskMsg(firstLine(perr.Error()))+"/"+tag, fmt.Sprintf("cog's %s parser rejects the emitted document: %v", kind, perr), replay)
	}
	return comp
}

func lastLine(s string) string {
	s = strings.TrimSpace(s)
	if i := strings.LastIndex(s, "\n"); i >= 0 {
		return strings.TrimSpace(s[i+1:])
	}
	return s
}

func checkC12(r *Run) {
	n := r.n(12, 200)
	r.Rule = "(1) AM schemas in 3 formats through the pipeline with Go + jsonschema + openapi outputs: emitted documents loaded by santhosh-tekuri/jsonschema (draft-07) / kin-openapi and by cog's own parsers, every $ref resolved, every IR object/field found under its own name, required/constraints/enum values/defaults compared with the IR handed to the jenny (context.ready hook); every Go re-encoding of an accepted document validated against the emitted definition of its object. (2) irgen multi-package IRs (cross-package reference chains) through the two jennies: loaders + structure. distinct_nontrivial = distinct emitted documents checked"
	c := buildCorpus(r, corpusOpts{N: n, Formats: []string{"jsonschema", "openapi", "cue"}, Profile: "general", Langs: []string{"go", "jsonschema", "openapi"}, DocsPerObj: r.n(5, 8), Tag: "c12",
		GoFlags: map[string]any{"generate_equal": false, "generate_validate": false}})
	defer c.cleanup()
	goErr := c.buildGoDriver()
	compilers := map[string]*jsonschema.Compiler{}
	for _, cs := range c.Schemas {
		if cs.Files == nil {
			continue
		}
		for _, kind := range []string{"jsonschema", "openapi"} {
			raw, ok := cs.Files[kind+"/pk."+kind+".json"]
			if !ok {
				r.Count("emitted_file_missing/"+kind, 1)
				continue
			}
			r.Eval()
			r.Distinct(kind + string(raw))
			r.Count("emitted_documents/"+kind, 1)
			replay := map[string]any{"input_format": cs.Format, "input_schema": string(cs.SchemaText), "emitted": string(raw)}
			var doc map[string]any
			dec := json.NewDecoder(bytes.NewReader(raw))
			dec.UseNumber()
			if err := dec.Decode(&doc); err != nil {
				r.Violation(kind+"/not-json", err.Error(), replay)
				continue
			}
			comp := c12Loaders(r, kind, raw, cs.Dir, replay, "am")
			if kind == "jsonschema" && comp != nil {
				compilers[cs.ID] = comp
			}
			if langSchemas, ok := cs.LangSchemas[kind]; ok {
				for _, s := range langSchemas {
					if s.Package == "pk" {
						c12Structure(r, kind, s, doc, replay, "am")
					}
				}
			} else {
				r.CaseInconclusive("no context.schemas event for " + kind)
			}
		}
	}
	// Go re-encodings validate against the emitted JSON Schema of their object
	if goErr == nil {
		var reqs []drvReq
		type meta struct {
			cs  *corpusSchema
			obj string
		}
		metas := map[string]meta{}
		for _, cs := range c.Schemas {
			if !cs.GoOK || compilers[cs.ID] == nil {
				continue
			}
			for _, on := range sortedObjNames(cs.Docs) {
				if !cs.GoTypes[on] {
					continue
				}
				for i, d := range cs.Docs[on] {
					id := fmt.Sprintf("%s.%s#%d", cs.ID, on, i)
					reqs = append(reqs, drvReq{ID: id, Op: "roundtrip", Type: cs.ID + "." + on, Doc: d.JSON()})
					metas[id] = meta{cs, on}
				}
			}
		}
		resps, _ := c.runGo(reqs)
		for _, q := range reqs {
			resp, ok := resps[q.ID]
			if !ok || resp.DecodeErr != "" || resp.Panic != "" || resp.Out == nil {
				continue
			}
			m := metas[q.ID]
			sch, err := compilers[m.cs.ID].Compile("emitted.json#/definitions/" + m.obj)
			if err != nil {
				r.CaseInconclusive("cannot compile emitted definition " + m.obj + ": " + err.Error())
				continue
			}
			val, _ := parseJSONNum(resp.Out)
			r.Eval()
			r.Count("events.go_value_validated", 1)
			if verr := sch.Validate(val); verr != nil {
				cause := lastLine(fmt.Sprintf("%v", verr))
				full := fmt.Sprintf("%#v", verr)
				cls := cause
				if i := strings.LastIndex(cause, ": "); i >= 0 {
					cls = cause[i+2:]
				}
				switch {
				case strings.Contains(full, "but got null"):
					cls = "null-rejected(nullability not emitted)"
				case strings.Contains(full, "expected object, but got"):
					cls = "non-object-rejected-where-object-declared(any emitted as object)"
				case strings.Contains(full, "value must be"):
					cls = "enum-or-const-mismatch"
				}
				r.Violation("jsonschema/go-value-rejected/"+maskMsg(cls), fmt.Sprintf("Go encodes %s as %s, which the emitted JSON Schema of %s rejects: %s", q.Doc, resp.Out, m.obj, cause), map[string]any{"input_schema": string(m.cs.SchemaText), "document": string(q.Doc), "go_json": string(resp.Out), "emitted": string(m.cs.Files["jsonschema/pk.jsonschema.json"])})
			}
		}
	} else {
		r.CaseInconclusive("go driver: " + goErr.Error())
	}

	// (2) multi-package IRs straight into the jennies
	ni := r.n(60, 1500)
	dir, _ := os.MkdirTemp(scratchDir(), "c12-")
	defer os.RemoveAll(dir)
	for ci := 0; ci < ni; ci++ {
		rng := newRNG("C12ir", r.Seed, ci)
		o := defaultIROpts()
		o.Pkgs = 3
		o.Depth = 2
		o.NestedUnions, o.AliasObjects, o.Intersections, o.UniqueNames = false, ci%2 == 0, false, true
		o.Defaults = false // irgen defaults are not type-checked against their field: kept out of this workload
		o.IntKeyMaps = true
		schemas, _ := genSchemas(rng, o)
		// a guaranteed two-deep cross-package chain
		if len(schemas) >= 3 {
			schemas[2].AddObject(ast.NewObject(schemas[2].Package, "DeepLeaf", ast.NewStruct(ast.NewStructField("v", ast.NewScalar(ast.KindFloat64), ast.Required()))))
			schemas[1].AddObject(ast.NewObject(schemas[1].Package, "DeepMid", ast.NewStruct(ast.NewStructField("leaf", ast.NewRef(schemas[2].Package, "DeepLeaf"), ast.Required()))))
			schemas[0].AddObject(ast.NewObject(schemas[0].Package, "DeepTop", ast.NewStruct(ast.NewStructField("mid", ast.NewRef(schemas[1].Package, "DeepMid"), ast.Required()))))
		}
		p, err := codegen.NewPipeline()
		if err != nil {
			continue
		}
		p.Output.Types = true
		for _, kind := range []string{"jsonschema", "openapi"} {
			l := newLanguage(kind)
			var ctx languages.Context
			var files map[string][]byte
			pv, _ := guard(func() {
				ctx, err = p.ContextForLanguage(l, schemas)
				if err != nil {
					return
				}
				fs, ferr := l.Jennies(languages.Config{Types: true}).GenerateFS(ctx)
				if ferr != nil {
					err = ferr
					return
				}
				files = map[string][]byte{}
				for _, f := range fs.AsFiles() {
					files[f.RelativePath] = f.Data
				}
			})
			if pv != nil || err != nil {
				r.Count("jenny_failed(C04/C02's business)", 1)
				continue
			}
			for _, s := range ctx.Schemas {
				var raw []byte
				for path, b := range files {
					if strings.HasSuffix(path, s.Package+"."+kind+".json") {
						raw = b
					}
				}
				if raw == nil {
					continue
				}
				r.Eval()
				r.Distinct(kind + string(raw))
				r.Count("emitted_documents_from_irgen/"+kind, 1)
				replay := map[string]any{"kind": kind, "package": s.Package, "input_ir": mustJSON(schemas), "emitted": string(raw)}
				var doc map[string]any
				dec := json.NewDecoder(bytes.NewReader(raw))
				dec.UseNumber()
				if dec.Decode(&doc) != nil {
					r.Violation(kind+"/not-json", "", replay)
					continue
				}
				sub := filepath.Join(dir, fmt.Sprintf("%d-%s-%s", ci, kind, s.Package))
				_ = os.MkdirAll(sub, 0o755)
				c12Loaders(r, kind, raw, sub, replay, "multi-package")
				c12Structure(r, kind, s, doc, replay, "multi-package")
				_ = os.RemoveAll(sub)
			}
		}
	}
}
