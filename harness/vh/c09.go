package main

import (
	"encoding/json"
	"fmt"
	"os"
	"regexp"
	"sort"
	"strings"

	"github.com/grafana/cog/internal/ast"
	"github.com/grafana/cog/internal/languages"
)

// C09 — a builder option sets exactly its target; invalid input is reported, valid never.
//
// The generated Go and Python builders are compiled/imported and *called*. Calls are planned from
// the builder IR the jennies received (context.ready hook): every option's assignments say which
// path(s) it writes, with which argument / constant. Argument values come from documents the
// source format's reference validator accepted (valid) or rejected (single constraint fault).
// Observed per call sequence: the object under construction (Go: the builder's `internal` field read
// through reflection; Python: `_internal`), the recorded nested errors, the Build() result.
//
// Oracle:
//   value   — after the calls, every assigned path holds what decoding the same document with the
//             generated type yields at that path (so C01/C11 representation questions stay there)
//   frame   — every member not on an assigned path equals the freshly constructed default object's
//   consts  — constructor constants are present in every built object
//   valid   — sequences built from accepted documents never fail
//   invalid — a constraint-violating argument is reported (Go: Build(); Python: the option call)
//   nested  — a failing nested builder is reported (Go: Build(); Python: the option call)

func init() { register("C09", checkC09) }

type c09Step struct {
	Ident string
	Key   *string // map index (bound)
}

type c09Effect struct {
	Path    []c09Step
	Method  ast.AssignmentMethod
	ArgIdx  int // -1: constant
	Const   any
	Unknown string // reason why the effect cannot be predicted (envelope, …)
}

type c09Call struct {
	Option   string
	Args     []any // JSON-ish values (docgen), failMarker for a failing nested builder
	Effects  []c09Effect
	ArgTypes []ast.Type
	ElemIdx  int // append options: which element of the document's array this call carries
}

const c09Fail = "__FAIL__"

func c09PathKeys(p []c09Step) []string {
	var out []string
	for _, s := range p {
		if s.Ident != "" {
			out = append(out, s.Ident)
		}
		if s.Key != nil {
			out = append(out, *s.Key)
		}
	}
	return out
}

func lookupPath(doc any, keys []string) (any, bool) {
	cur := doc
	for _, k := range keys {
		m, ok := cur.(map[string]any)
		if !ok {
			return nil, false
		}
		cur, ok = m[k]
		if !ok {
			return nil, false
		}
	}
	return cur, true
}

// planCalls derives the calls that reproduce doc with builder b: per option, the argument values are
// looked up in doc at the paths the option's assignments write.
func planCalls(b ast.Builder, doc map[string]any, accept func(t ast.Type, v any) bool) (calls []c09Call, skipped []string) {
	for _, opt := range b.Options {
		cs, why := planOne(opt.Name, opt.Args, opt.Assignments, doc, accept)
		if why != "" {
			skipped = append(skipped, opt.Name+": "+why)
		}
		calls = append(calls, cs...)
	}
	return calls, skipped
}

// planCtor: the constructor call (nil when the document lacks a value for one of its arguments).
func planCtor(b ast.Builder, doc map[string]any) (*c09Call, string) {
	cs, why := planOne("", b.Constructor.Args, b.Constructor.Assignments, doc, nil)
	if why != "" {
		return nil, why
	}
	if len(cs) != 1 {
		return nil, "document lacks constructor argument values"
	}
	return &cs[0], ""
}

func planOne(name string, optArgs []ast.Argument, assignments []ast.Assignment, doc map[string]any, accept func(t ast.Type, v any) bool) (calls []c09Call, why string) {
	argIdx := map[string]int{}
	for i, a := range optArgs {
		argIdx[a.Name] = i
	}
	type bind struct {
		keys   []string // identifiers up to (excluding) an index step
		method ast.AssignmentMethod
	}
	binds := map[int]bind{}
	var effects []c09Effect
	keyArg := -1
	for _, as := range assignments {
		eff := c09Effect{Method: as.Method, ArgIdx: -1}
		var idents []string
		for _, it := range as.Path {
			st := c09Step{Ident: it.Identifier}
			if it.Identifier != "" {
				idents = append(idents, it.Identifier)
			}
			if it.Index != nil {
				if it.Index.Argument == nil {
					return nil, "constant index"
				}
				i, ok := argIdx[it.Index.Argument.Name]
				if !ok || keyArg >= 0 && keyArg != i {
					return nil, "unsupported index"
				}
				keyArg = i
				k := ""
				st.Key = &k
			}
			eff.Path = append(eff.Path, st)
		}
		switch {
		case as.Value.Argument != nil:
			i, ok := argIdx[as.Value.Argument.Name]
			if !ok {
				return nil, "assignment uses an unknown argument"
			}
			eff.ArgIdx = i
			binds[i] = bind{idents, as.Method}
		case as.Value.Envelope != nil:
			eff.Unknown = "envelope"
			if vs := as.Value.Envelope.Values; as.Method == ast.AppendAssignment && len(vs) == 1 && vs[0].Value.Argument != nil {
				// one branch of a union appended to a list (disjunction_as_options after array_to_append): the wrapper
				// struct encodes as the branch it holds, so the appended element is the argument itself
				if i, ok := argIdx[vs[0].Value.Argument.Name]; ok {
					eff.Unknown = ""
					eff.ArgIdx = i
					binds[i] = bind{idents, ast.AppendAssignment}
				}
			}
			if as.Method == ast.DirectAssignment {
				// a struct assembled from several arguments: each member is an effect of its own below the target
				for _, ev := range as.Value.Envelope.Values {
					if ev.Value.Argument == nil {
						continue
					}
					i, ok := argIdx[ev.Value.Argument.Name]
					if !ok {
						return nil, "envelope uses an unknown argument"
					}
					sub := c09Effect{Method: ast.DirectAssignment, ArgIdx: i, Path: append([]c09Step(nil), eff.Path...)}
					keys := append([]string(nil), idents...)
					for _, it := range ev.Path {
						sub.Path = append(sub.Path, c09Step{Ident: it.Identifier})
						keys = append(keys, it.Identifier)
					}
					binds[i] = bind{keys, ast.DirectAssignment}
					effects = append(effects, sub)
				}
			}
		default:
			eff.Const = as.Value.Constant
		}
		effects = append(effects, eff)
	}
	types := make([]ast.Type, len(optArgs))
	for i, a := range optArgs {
		types[i] = a.Type
	}
	if len(optArgs) == 0 {
		if name == "" {
			return []c09Call{{Option: name, Effects: effects}}, ""
		}
		// constant-only option (e.g. unfold_boolean): called when the document agrees with every constant
		agrees := len(effects) > 0
		for _, e := range effects {
			v, ok := lookupPath(doc, c09PathKeys(e.Path))
			if !ok || e.Unknown != "" || jsonDiff(toJSONish(e.Const), v, jsonCmpOpts{}, "") != "" {
				agrees = false
			}
		}
		if agrees {
			calls = append(calls, c09Call{Option: name, Effects: effects})
		}
		return calls, ""
	}
	// map index: (key, value) — one call per key of the document's map
	if keyArg >= 0 {
		if len(optArgs) != 2 {
			return nil, "index option with extra arguments"
		}
		valArg := 1 - keyArg
		bd, ok := binds[valArg]
		if !ok {
			return nil, "index option without value argument"
		}
		v, ok := lookupPath(doc, bd.keys)
		m, isMap := v.(map[string]any)
		if !ok || !isMap {
			return nil, ""
		}
		for _, k := range sortedKeys(m) {
			if m[k] == nil {
				continue
			}
			args := make([]any, 2)
			args[keyArg], args[valArg] = k, m[k]
			effs := make([]c09Effect, len(effects))
			for i, e := range effects {
				ne := e
				ne.Path = append([]c09Step(nil), e.Path...)
				for j := range ne.Path {
					if ne.Path[j].Key != nil {
						kk := k
						ne.Path[j].Key = &kk
					}
				}
				effs[i] = ne
			}
			calls = append(calls, c09Call{Option: name, Args: args, Effects: effs, ArgTypes: types})
		}
		return calls, ""
	}
	// append with a single argument: one call per element
	if len(optArgs) == 1 {
		if bd, ok := binds[0]; ok && bd.method == ast.AppendAssignment {
			v, ok := lookupPath(doc, bd.keys)
			arr, isArr := v.([]any)
			if !ok || !isArr {
				return nil, ""
			}
			for ei, el := range arr {
				if el == nil || accept != nil && !accept(optArgs[0].Type, el) {
					continue // e.g. one option per branch of a union (disjunction_as_options): other branches' elements
				}
				calls = append(calls, c09Call{Option: name, Args: []any{el}, Effects: effects, ArgTypes: types, ElemIdx: ei})
			}
			return calls, ""
		}
	}
	args := make([]any, len(optArgs))
	present := 0
	for i := range optArgs {
		bd, ok := binds[i]
		if !ok {
			return nil, "argument not bound to an assignment"
		}
		if bd.method == ast.AppendAssignment {
			return nil, "append among several arguments"
		}
		v, ok := lookupPath(doc, bd.keys)
		if ok && v != nil { // null: the option is not called, the member keeps its default
			present++
			args[i] = v
		}
	}
	if present == 0 {
		return nil, ""
	}
	if present < len(args) {
		return nil, "document lacks a value for some arguments"
	}
	return []c09Call{{Option: name, Args: args, Effects: effects, ArgTypes: types}}, ""
}

func pathIdents(p ast.Path) []string {
	out := make([]string, 0, len(p))
	for _, it := range p {
		out = append(out, it.Identifier)
	}
	return out
}

func toJSONish(v any) any {
	b, err := json.Marshal(v)
	if err != nil {
		return v
	}
	out, err := parseJSONNum(b)
	if err != nil {
		return v
	}
	return out
}

// pyShape turns a JSON value into the shape the Python driver needs to construct the argument.
func pyShape(ctx languages.Context, t ast.Type, v any, depth int, plain ...bool) (any, string) {
	noBuilders := len(plain) > 0 && plain[0]
	if s, ok := v.(string); ok && s == c09Fail {
		return map[string]any{"k": "fail"}, ""
	}
	if v == nil {
		return map[string]any{"k": "raw", "v": nil}, ""
	}
	if depth > 12 {
		return nil, "too deep"
	}
	switch {
	case t.IsRef():
		ref := t.AsRef()
		obj, ok := ctx.LocateObject(ref.ReferredPkg, ref.ReferredType)
		if !ok {
			return nil, "dangling ref"
		}
		switch {
		case obj.Type.IsEnum():
			return map[string]any{"k": "enum", "t": obj.Name, "v": v}, ""
		case obj.Type.IsStruct():
			if _, isMap := v.(map[string]any); !isMap {
				return nil, "struct ref with non-object value"
			}
			if _, has := ctx.Builders.LocateByObject(ref.ReferredPkg, ref.ReferredType); has && !noBuilders {
				return map[string]any{"k": "builder", "t": obj.Name, "v": v}, ""
			}
			return map[string]any{"k": "obj", "t": obj.Name, "v": v}, ""
		case obj.Type.IsArray(), obj.Type.IsMap():
			// a named collection is passed as a plain value: its elements are objects, not builders
			return pyShape(ctx, obj.Type, v, depth+1, true)
		case obj.Type.IsRef(), obj.Type.IsScalar(), obj.Type.IsDisjunction():
			return pyShape(ctx, obj.Type, v, depth+1, noBuilders)
		}
		return nil, "ref to " + string(obj.Type.Kind)
	case t.IsArray():
		arr, ok := v.([]any)
		if !ok {
			return nil, "array with non-array value"
		}
		items := make([]any, 0, len(arr))
		for _, el := range arr {
			s, why := pyShape(ctx, t.AsArray().ValueType, el, depth+1, noBuilders)
			if why != "" {
				return nil, why
			}
			items = append(items, s)
		}
		return map[string]any{"k": "list", "items": items}, ""
	case t.IsMap():
		m, ok := v.(map[string]any)
		if !ok {
			return nil, "map with non-object value"
		}
		items := map[string]any{}
		for k, el := range m {
			s, why := pyShape(ctx, t.AsMap().ValueType, el, depth+1, noBuilders)
			if why != "" {
				return nil, why
			}
			items[k] = s
		}
		return map[string]any{"k": "map", "items": items}, ""
	case t.IsScalar(), t.IsEnum():
		return map[string]any{"k": "raw", "v": v}, ""
	case t.IsDisjunction():
		switch v.(type) {
		case map[string]any, []any:
			return nil, "disjunction with composite value"
		}
		return map[string]any{"k": "raw", "v": v}, ""
	}
	return nil, "kind " + string(t.Kind)
}

// frameDiff: members of act that are not on any assigned path must equal def's.
func frameDiff(def, act any, paths [][]string, at string) string {
	for _, p := range paths {
		if len(p) == 0 {
			return ""
		}
	}
	dm, dok := def.(map[string]any)
	am, aok := act.(map[string]any)
	if !dok {
		return "" // container created by a nil-guard: its other members are the nested type's defaults
	}
	if !aok {
		return at + ": object replaced by " + short(act)
	}
	keys := map[string]bool{}
	for k := range dm {
		keys[k] = true
	}
	for k := range am {
		keys[k] = true
	}
	for _, k := range sortedKeys(keys) {
		var sub [][]string
		for _, p := range paths {
			if p[0] == k {
				sub = append(sub, p[1:])
			}
		}
		dv, dok := dm[k]
		av, aok := am[k]
		if len(sub) == 0 {
			if dok != aok {
				return fmt.Sprintf("%s.%s: %s in the default object, %s after the calls", at, k, presence(dok, dv), presence(aok, av))
			}
			if d := jsonDiff(dv, av, jsonCmpOpts{}, at+"."+k); d != "" {
				return d
			}
			continue
		}
		if d := frameDiff(dv, av, sub, at+"."+k); d != "" {
			return d
		}
	}
	return ""
}

func presence(ok bool, v any) string {
	if !ok {
		return "absent"
	}
	return short(v)
}

type c09Case struct {
	cs      *corpusSchema
	lang    string
	b       ast.Builder
	obj     *amObject
	kind    string // default | single | full | fault | nested-fail
	doc     map[string]any
	calls   []c09Call
	fault   *amFault
	faultAt int // index of the call carrying the fault / failing nested builder
	rtID    string
	ctor    *c09Call
}

func checkC09(r *Run) {
	n := r.n(6, 90)
	r.Rule = "AM schemas (constraints / defaults / general profiles, constants, nested structs, arrays and maps of structs, unions) in 3 formats, Go and Python builders generated by real pipeline runs, compiled/imported and called through drivers; call sequences planned from the builder IR seen by the jennies (context.ready hook): empty, single option, every option of an accepted document in PRNG-shuffled order, accepted document with one constraint fault, failing nested builder. Observed: builder.internal / builder.errors (reflection), Build() result, Python _internal and exceptions. distinct_nontrivial = distinct (schema, language, builder, call sequence) executed"
	c := buildCorpus(r, corpusOpts{N: n, Formats: []string{"jsonschema", "openapi", "cue"}, Profile: "constraints,defaults,general", Langs: []string{"go", "python"}, Builders: true,
		DocsPerObj: r.n(4, 8), Faults: r.n(8, 16), Tag: "c09", Extras: c09Extras})
	defer c.cleanup()
	goErr := c.buildGoDriver()
	if goErr != nil {
		r.CaseInconclusive("go driver: " + goErr.Error())
	}
	for sid, d := range c.BrokenGo {
		r.CaseInconclusive("generated Go of " + sid + " does not compile (C02's business): " + d)
	}
	pyErr := c.buildPyTree()
	if pyErr != nil {
		r.CaseInconclusive("python tree: " + pyErr.Error())
	}
	if goErr != nil && pyErr != nil {
		r.Inconclusive("neither Go nor Python builders could be executed")
		return
	}

	cases := map[string]*c09Case{}
	reqs := map[string][]drvReq{"go": nil, "python": nil}
	add := func(id string, cse *c09Case, q drvReq) {
		q.ID = id
		cases[id] = cse
		reqs[cse.lang] = append(reqs[cse.lang], q)
	}
	mkReq := func(cse *c09Case) (drvReq, string) {
		q := drvReq{Op: "build", Type: cse.cs.ID + "." + normName(cse.b.Name)}
		ctx := cse.cs.Contexts[cse.lang]
		if cse.ctor != nil {
			for i, a := range cse.ctor.Args {
				q.Ctor = append(q.Ctor, mustJSONBytes(a))
				if cse.lang == "python" {
					sh, why := pyShape(ctx, cse.ctor.ArgTypes[i], a, 0)
					if why != "" {
						return q, "constructor: " + why
					}
					q.PyCtor = append(q.PyCtor, sh)
				}
			}
		}
		for _, cl := range cse.calls {
			dc := drvCall{Option: cl.Option}
			for i, a := range cl.Args {
				dc.Args = append(dc.Args, mustJSONBytes(a))
				if cse.lang == "python" {
					sh, why := pyShape(ctx, cl.ArgTypes[i], a, 0)
					if why != "" {
						return q, cl.Option + ": " + why
					}
					dc.PyArgs = append(dc.PyArgs, sh)
				}
			}
			if dc.Args == nil {
				dc.Args = []json.RawMessage{}
			}
			q.Calls = append(q.Calls, dc)
		}
		return q, ""
	}

	for _, cs := range c.Schemas {
		if cs.Extra != "" && (cs.GenErr != nil || cs.GenPanic != nil) {
			r.Count(fmt.Sprintf("fixed_workload_pipeline_error/%s/%s: %s", cs.Extra, cs.Format, truncate(fmt.Sprint(cs.GenErr, cs.GenPanic), 200)), 1)
		}
		for _, lang := range []string{"go", "python"} {
			if (lang == "go" && (goErr != nil || !cs.GoOK)) || (lang == "python" && (pyErr != nil || !cs.PyOK)) {
				continue
			}
			ctx, ok := cs.Contexts[lang]
			if !ok {
				continue
			}
			for _, b := range ctx.Builders {
				obj := cs.AM.obj(b.For.Name)
				if obj == nil || obj.T.K != "struct" || b.Package != "pk" {
					r.Count("builders_without_am_struct(not driven)", 1)
					continue
				}
				if lang == "go" {
					if _, ok := cs.GoBuilders[normName(b.Name)]; !ok {
						r.Count("go_builders_not_found_in_output", 1)
						continue
					}
				}
				c09Intent(r, cs, lang, b, obj)
				base := fmt.Sprintf("%s/%s/%s", cs.ID, lang, b.Name)
				newID := fmt.Sprintf("%s/%s/%s#new", cs.ID, lang, obj.Name)
				if _, seen := cases[newID]; !seen {
					cases[newID] = &c09Case{cs: cs, lang: lang, b: b, obj: obj, kind: "rt"}
					reqs[lang] = append(reqs[lang], drvReq{ID: newID, Op: "default", Type: cs.ID + "." + obj.Name})
				}
				if len(b.Constructor.Args) == 0 {
					add(base+"#default", &c09Case{cs: cs, lang: lang, b: b, obj: obj, kind: "default"}, drvReq{Op: "build", Type: cs.ID + "." + normName(b.Name)})
				}
				rng := newRNG("c09", r.Seed, cs.ID, lang, b.Name)
				accept := func(t ast.Type, v any) bool {
					if !t.IsRef() {
						return true
					}
					o := cs.AM.obj(t.AsRef().ReferredType)
					if o == nil || o.T.K != "struct" {
						return true
					}
					// the element belongs to this branch when it carries the branch's constants (discriminator)
					m, isObj := v.(map[string]any)
					if !isObj {
						return false
					}
					for _, f := range o.T.Fields {
						if f.T.K == "const" && fmt.Sprint(m[f.Name]) != fmt.Sprint(f.T.Const) {
							return false
						}
					}
					return true
				}
				singles := map[string]int{}
				for di, d := range cs.Docs[obj.Name] {
					doc, ok := d.Val.(map[string]any)
					if !ok {
						continue
					}
					rtID := fmt.Sprintf("%s#rt%d", base, di)
					calls, skipped := planCalls(b, doc, accept)
					for _, s := range skipped {
						r.Count("options_not_planned/"+afterColon(s), 1)
						if os.Getenv("VERIF_DEBUG") != "" {
							fmt.Printf("DEBUG not planned: %s %s %s.%s\n", cs.Extra, lang, b.Name, s)
						}
					}
					ctor, why := planCtor(b, doc)
					if ctor == nil {
						r.Count("constructor_not_planned/"+why, 1)
						continue
					}
					if len(calls) == 0 && len(ctor.Args) == 0 {
						continue
					}
					cases[rtID] = &c09Case{cs: cs, lang: lang, b: b, obj: obj, kind: "rt"}
					reqs[lang] = append(reqs[lang], drvReq{ID: rtID, Op: "roundtrip", Type: cs.ID + "." + obj.Name, Doc: d.JSON()})
					// full sequence, shuffled
					sh := append([]c09Call(nil), calls...)
					shuffleStable(rng, sh)
					cse := &c09Case{cs: cs, lang: lang, b: b, obj: obj, kind: "full", doc: doc, calls: sh, rtID: rtID, ctor: ctor}
					if q, why := mkReq(cse); why == "" {
						add(fmt.Sprintf("%s#full%d", base, di), cse, q)
					} else {
						r.Count("python_sequences_not_expressible/"+afterColon(why), 1)
					}
					// single options (at most 2 documents per option)
					for ci, cl := range calls {
						if singles[cl.Option] >= 2 {
							continue
						}
						cse := &c09Case{cs: cs, lang: lang, b: b, obj: obj, kind: "single", doc: doc, calls: []c09Call{cl}, rtID: rtID, ctor: ctor}
						q, why := mkReq(cse)
						if why != "" {
							c09Mismatch(r, cs, lang, b, cl.Option, why)
							r.Count("python_sequences_not_expressible/"+afterColon(why), 1)
							continue
						}
						singles[cl.Option]++
						add(fmt.Sprintf("%s#single%d.%d", base, di, ci), cse, q)
						// failing nested builder
						if singles[cl.Option] == 1 {
							if fa, ok := withFailingNested(ctx, cl); ok {
								cse := &c09Case{cs: cs, lang: lang, b: b, obj: obj, kind: "nested-fail", doc: doc, calls: []c09Call{fa}, ctor: ctor}
								if q, why := mkReq(cse); why == "" {
									add(fmt.Sprintf("%s#nfail%d.%d", base, di, ci), cse, q)
								}
							}
						}
					}
				}
				for fi, d := range cs.Faults[obj.Name] {
					if d.Fault == nil || (d.Fault.Class != "bound" && d.Fault.Class != "length") {
						continue
					}
					if err := cs.Validator.Validate(obj.Name, d.JSON()); err == nil {
						r.Count("fault_docs_accepted_by_reference_validator(discarded)", 1)
						continue
					}
					doc, ok := d.Val.(map[string]any)
					if !ok {
						continue
					}
					calls, _ := planCalls(b, doc, accept)
					ctor, _ := planCtor(b, doc)
					if ctor == nil {
						continue
					}
					at := -2
					for _, e := range ctor.Effects {
						if len(e.Path) > 0 && len(d.Fault.Path) > 0 && e.Path[0].Ident == d.Fault.Path[0] && e.ArgIdx >= 0 {
							at = -1
						}
					}
					for i, cl := range calls {
						for _, e := range cl.Effects {
							if at == -2 && len(e.Path) > 0 && len(d.Fault.Path) > 0 && e.Path[0].Ident == d.Fault.Path[0] {
								at = i // the first call that carries the fault
							}
						}
					}
					if at < -1 {
						continue
					}
					f := d.Fault
					cse := &c09Case{cs: cs, lang: lang, b: b, obj: obj, kind: "fault", doc: doc, calls: calls, fault: f, faultAt: at, ctor: ctor}
					if q, why := mkReq(cse); why == "" {
						add(fmt.Sprintf("%s#fault%d", base, fi), cse, q)
					}
				}
			}
		}
	}

	resps := map[string]drvResp{}
	if len(reqs["go"]) > 0 {
		rs, err := c.runGo(reqs["go"])
		if err != nil {
			r.CaseInconclusive("go driver run: " + err.Error())
		}
		for k, v := range rs {
			resps[k] = v
		}
	}
	if len(reqs["python"]) > 0 {
		rs, err := c.runPy(reqs["python"])
		if err != nil {
			r.CaseInconclusive("python driver run: " + err.Error())
		}
		for k, v := range rs {
			resps[k] = v
		}
	}

	ids := make([]string, 0, len(cases))
	for id := range cases {
		ids = append(ids, id)
	}
	sort.Strings(ids)
	importFailed := map[string]bool{}
	for _, id := range ids {
		cse := cases[id]
		if cse.kind == "rt" {
			continue
		}
		resp, ok := resps[id]
		if !ok {
			r.CaseInconclusive("no driver response for " + id)
			continue
		}
		if strings.HasPrefix(resp.Panic, "import:") || strings.Contains(resp.Panic, "ModuleNotFoundError") || resp.ImportErr != "" {
			if !importFailed[cse.cs.ID] {
				importFailed[cse.cs.ID] = true
				r.CaseInconclusive("generated Python of " + cse.cs.ID + " does not import (C02's business): " + firstLine(resp.Panic))
			}
			continue
		}
		if resp.Unknown {
			r.Count("builders_unknown_to_driver/"+cse.lang, 1)
			continue
		}
		if resp.HarnessErr != "" {
			r.Count("harness_could_not_express_call/"+cse.lang+"/"+maskMsg(truncate(resp.HarnessErr, 60)), 1)
			continue
		}
		r.Eval()
		r.Distinct(id)
		r.Count("events."+cse.lang+"."+cse.kind, 1)
		c09Judge(r, id, cse, resp, resps)
	}
}

func shuffleStable(rng *RNG, xs []c09Call) {
	for i := len(xs) - 1; i > 0; i-- {
		j := rng.Intn(i + 1)
		xs[i], xs[j] = xs[j], xs[i]
	}
}

// withFailingNested replaces the first builder-typed argument (or element) of the call by a failing builder.
func withFailingNested(ctx languages.Context, cl c09Call) (c09Call, bool) {
	out := cl
	out.Args = append([]any(nil), cl.Args...)
	for i, t := range cl.ArgTypes {
		if v, ok := failIn(ctx, t, cl.Args[i], 0); ok {
			out.Args[i] = v
			return out, true
		}
	}
	return out, false
}

func failIn(ctx languages.Context, t ast.Type, v any, depth int) (any, bool) {
	if depth > 6 || v == nil {
		return nil, false
	}
	switch {
	case t.IsRef():
		ref := t.AsRef()
		obj, ok := ctx.LocateObject(ref.ReferredPkg, ref.ReferredType)
		if !ok {
			return nil, false
		}
		if obj.Type.IsStruct() {
			if _, has := ctx.Builders.LocateByObject(ref.ReferredPkg, ref.ReferredType); has {
				if _, isObj := v.(map[string]any); isObj {
					return c09Fail, true
				}
			}
			return nil, false
		}
		if obj.Type.IsArray() || obj.Type.IsMap() || obj.Type.IsRef() {
			// a named collection is passed as a plain value, not as builders
			return nil, false
		}
	case t.IsArray():
		arr, ok := v.([]any)
		if !ok || len(arr) == 0 {
			return nil, false
		}
		out := append([]any(nil), arr...)
		last := len(out) - 1
		if fv, ok := failIn(ctx, t.AsArray().ValueType, out[last], depth+1); ok {
			out[last] = fv
			return out, true
		}
	case t.IsMap():
		m, ok := v.(map[string]any)
		if !ok || len(m) == 0 {
			return nil, false
		}
		out := map[string]any{}
		for k, e := range m {
			out[k] = e
		}
		k := sortedKeys(m)[0]
		if fv, ok := failIn(ctx, t.AsMap().ValueType, m[k], depth+1); ok {
			out[k] = fv
			return out, true
		}
	}
	return nil, false
}

func (cse *c09Case) callName(i int) string {
	if i < 0 || i >= len(cse.calls) {
		return "the constructor"
	}
	return "option " + cse.calls[i].Option
}

func (cse *c09Case) callArgs(i int) []any {
	if i < 0 || i >= len(cse.calls) {
		if cse.ctor != nil {
			return cse.ctor.Args
		}
		return nil
	}
	return cse.calls[i].Args
}

// leafAt follows a docgen fault path (field, [i], {key}) through a document.
func leafAt(doc any, path []string) any {
	cur := doc
	for _, st := range path {
		switch {
		case strings.HasPrefix(st, "["):
			arr, ok := cur.([]any)
			var i int
			fmt.Sscanf(st, "[%d]", &i)
			if !ok || i >= len(arr) {
				return nil
			}
			cur = arr[i]
		default:
			m, ok := cur.(map[string]any)
			if !ok {
				return nil
			}
			cur = m[strings.Trim(st, "{}")]
		}
	}
	return cur
}

func c09Judge(r *Run, id string, cse *c09Case, resp drvResp, resps map[string]drvResp) {
	lang := cse.lang
	base := fmt.Sprintf("%s/%s/%s", cse.cs.ID, lang, cse.b.Name)
	seq := make([]string, 0, len(cse.calls))
	for _, cl := range cse.calls {
		seq = append(seq, fmt.Sprintf("%s(%s)", cl.Option, truncate(string(mustJSONBytes(cl.Args)), 120)))
	}
	replay := map[string]any{"format": cse.cs.Format, "veneers": cse.cs.Veneers, "language": lang, "builder": cse.b.Name, "kind": cse.kind, "calls": seq, "schema": string(cse.cs.SchemaText), "id": id}
	if resp.Panic != "" {
		r.Violation(lang+"/panic/"+cse.kind+"/"+maskMsg(truncate(resp.Panic, 90)), fmt.Sprintf("%s builder %s: %s during %s", lang, cse.b.Name, resp.Panic, strings.Join(seq, " → ")), replay)
		return
	}
	def, ok := resps[base+"#default"]
	var defObj any
	if nw, nok := resps[fmt.Sprintf("%s/%s/%s#new", cse.cs.ID, lang, cse.obj.Name)]; nok && nw.Panic == "" && !nw.Unknown && len(nw.Out) > 0 {
		defObj, _ = parseJSONNum(nw.Out)
	}

	switch cse.kind {
	case "default":
		// the builder without options holds the freshly constructed object plus the constructor constants
		obj, _ := parseJSONNum(resp.Internal)
		for _, as := range lastConstants(cse.b.Constructor.Assignments) {
			got, ok := lookupPath(obj, pathIdents(as.Path))
			if !ok || jsonDiff(toJSONish(as.Value.Constant), got, jsonCmpOpts{}, "") != "" {
				r.Violation(lang+"/constructor-constant-missing", fmt.Sprintf("%s builder %s: constructor constant %s=%v is not in the constructed object %s", lang, cse.b.Name, as.Path.String(), as.Value.Constant, resp.Internal), replay)
			}
		}
		if defObj != nil {
			var paths [][]string
			for _, as := range cse.b.Constructor.Assignments {
				paths = append(paths, pathIdents(as.Path))
			}
			if d := frameDiff(defObj, obj, paths, ""); d != "" {
				r.Violation(lang+"/builder-without-options-differs-from-default-object/"+maskMsg(truncate(d, 40)), fmt.Sprintf("%s builder %s without options holds an object that differs from the freshly constructed one: %s", lang, cse.b.Name, d), replay)
			}
		}
		return
	case "nested-fail":
		if lang == "go" {
			if resp.BuildErr == "" {
				r.Violation("go/nested-builder-error-not-reported", fmt.Sprintf("Go builder %s: option %s received a nested builder whose Build() fails (errors recorded in builder.errors: %d) but Build() returns no error", cse.b.Name, cse.calls[0].Option, resp.Recorded), replay)
			}
		} else if resp.CallErr == "" {
			r.Violation("python/nested-builder-error-not-reported", fmt.Sprintf("Python builder %s: option %s received a nested builder whose build() raises, but the option call returned normally", cse.b.Name, cse.calls[0].Option), replay)
		}
		return
	case "fault":
		f := cse.fault
		chain := leafContainer(containerChain(cse.cs.AM, cse.obj.T, f.Path))
		crossesBuilder := strings.Contains(containerChain(cse.cs.AM, cse.obj.T, f.Path), "ref") || len(f.Path) > 1 && !strings.HasPrefix(f.Path[1], "[") && !strings.HasPrefix(f.Path[1], "{")
		if lang == "go" {
			if resp.BuildErr == "" {
				rawTag := tagAtPath(cse.cs.AM, cse.obj.T, faultPathString(f.Path))
				rawTag = strings.NewReplacer("/required", "", "/optional", "").Replace(rawTag)
				if ch := containerChain(cse.cs.AM, cse.obj.T, f.Path); strings.Contains(ch, "ref>array") || strings.Contains(ch, "ref>map") {
					r.Violation("go/invalid-argument-not-reported/via-reference-to-named-collection", fmt.Sprintf("Go builder %s: Build() succeeds although the argument of %s violates a %s constraint at %s (reached through %s)", cse.b.Name, cse.callName(cse.faultAt), f.Class, strings.Join(f.Path, "."), ch), replay)
					return
				}
				if marker := cueDefaultLoss(cse.cs.Format, f.Class, rawTag, leafAt(cse.doc, f.Path)); marker != "" {
					r.Violation("go/invalid-argument-not-reported/"+marker, fmt.Sprintf("Go builder %s: Build() succeeds although the argument of %s violates a %s constraint at %s", cse.b.Name, cse.callName(cse.faultAt), f.Class, strings.Join(f.Path, ".")), replay)
					return
				}
				r.Violation("go/invalid-argument-not-reported/"+cse.cs.Format+"/"+f.Class+"/"+rawTag+"/"+chain, fmt.Sprintf("Go builder %s: Build() succeeds although the argument of %s violates a %s constraint at %s", cse.b.Name, cse.callName(cse.faultAt), f.Class, strings.Join(f.Path, ".")), replay)
			}
			return
		}
		if crossesBuilder {
			r.Count("python_faults_behind_a_nested_builder(not judged)", 1)
			return
		}
		if resp.CallErr == "" {
			marker := ""
			if n, ok := leafAt(cse.doc, f.Path).(json.Number); ok && cse.cs.Format == "cue" && strings.HasPrefix(string(n), "-") {
				// CUE rewrites `intN & >=0 & …` into an unsigned type; Python has no unsigned integers
				marker = "/cue-negative-for-unsigned"
			}
			pyTag := tagAtPath(cse.cs.AM, cse.obj.T, faultPathString(f.Path))
			pyTag = strings.NewReplacer("/required", "", "/optional", "").Replace(pyTag)
			key := "python/invalid-argument-not-reported/" + cse.cs.Format + "/" + f.Class + "/" + pyTag + "/" + chain
			switch {
			case marker != "":
				key = "python/invalid-argument-not-reported" + marker
			case strings.Contains(chain, "collection"):
				// root cause: Python options only check arguments that are themselves constrained scalars
				key = "python/invalid-argument-not-reported/inside-collection"
			case cueDefaultLoss(cse.cs.Format, f.Class, pyTag, leafAt(cse.doc, f.Path)) != "":
				key = "python/invalid-argument-not-reported/" + cueDefaultLoss(cse.cs.Format, f.Class, pyTag, leafAt(cse.doc, f.Path))
			}
			r.Violation(key, fmt.Sprintf("Python builder %s: %s accepts %s which violates a %s constraint at %s", cse.b.Name, cse.callName(cse.faultAt), truncate(string(mustJSONBytes(cse.callArgs(cse.faultAt))), 100), f.Class, strings.Join(f.Path, ".")), replay)
		} else if resp.CallErrAt != cse.faultAt {
			r.Violation("python/valid-argument-rejected/"+c09MaskErr(resp.CallErr), fmt.Sprintf("Python builder %s: %s raises %s on an argument the schema accepts", cse.b.Name, cse.callName(resp.CallErrAt), resp.CallErr), replay)
		}
		return
	}

	// single / full: valid arguments
	if resp.CallErr != "" {
		r.Violation("python/valid-argument-rejected/"+c09MaskErr(resp.CallErr), fmt.Sprintf("Python builder %s: %s raises %s on an argument the schema accepts (%s)", cse.b.Name, cse.callName(resp.CallErrAt), resp.CallErr, truncate(string(mustJSONBytes(cse.callArgs(resp.CallErrAt))), 120)), replay)
		return
	}
	if lang == "go" {
		if resp.Recorded > 0 {
			r.Violation("go/nested-error-recorded-for-valid-argument", fmt.Sprintf("Go builder %s: builder.errors holds %d entries after %s", cse.b.Name, resp.Recorded, strings.Join(seq, " → ")), replay)
		}
		nullRequired := false
		for _, f := range cse.obj.T.Fields {
			if v, ok := cse.doc[f.Name]; f.Required && (!ok && f.T.Default == nil || ok && v == nil) {
				nullRequired = true // the builder API cannot express "null": the member keeps the constructor's value
			}
		}
		if nullRequired && cse.kind == "full" && resp.BuildErr != "" {
			r.Count("full_sequences_with_null_required_member(build result not judged)", 1)
		}
		if cse.kind == "full" && resp.BuildErr != "" && !nullRequired {
			tag := ""
			if p := strings.SplitN(firstLine(resp.BuildErr), ":", 2)[0]; p != "" {
				tag = stripDefaults(tagAtPath(cse.cs.AM, cse.obj.T, "."+strings.Join(pathTokens(p), ".")))
			}
			r.Violation("go/valid-arguments-build-fails/"+tag+"/"+maskMsg(afterColon(firstLine(resp.BuildErr))), fmt.Sprintf("Go builder %s: Build() fails with %q after options carrying a document the schema accepts: %s", cse.b.Name, resp.BuildErr, strings.Join(seq, " → ")), replay)
		}
		if cse.kind == "single" && resp.BuildErr != "" && ok {
			// a valid argument can only remove validation errors of the default object
			before := map[string]bool{}
			for _, l := range strings.Split(def.BuildErr, "\n") {
				before[l] = true
			}
			for _, l := range strings.Split(resp.BuildErr, "\n") {
				if !before[l] {
					r.Violation("go/valid-argument-adds-build-error/"+maskMsg(afterColon(l)), fmt.Sprintf("Go builder %s: after %s Build() reports %q which the default object does not", cse.b.Name, seq[0], l), replay)
					break
				}
			}
		}
	}
	if len(resp.Internal) == 0 {
		r.CaseInconclusive("no object state observed for " + id)
		return
	}
	act, _ := parseJSONNum(resp.Internal)
	rt, ok := resps[cse.rtID]
	if !ok || rt.DecodeErr != "" || rt.Panic != "" || len(rt.Out) == 0 {
		r.Count("documents_not_decodable_by_the_generated_type(value check skipped)", 1)
	} else {
		want, _ := parseJSONNum(rt.Out)
		appended := map[string]int{}
		allCalls := cse.calls
		if cse.ctor != nil {
			allCalls = append([]c09Call{*cse.ctor}, cse.calls...)
			seq = append([]string{"constructor" + truncate(string(mustJSONBytes(cse.ctor.Args)), 120)}, seq...)
		}
		last := map[string][2]int{}
		for ci, cl := range allCalls {
			for ei, e := range cl.Effects {
				if e.Method != ast.AppendAssignment {
					last[strings.Join(c09PathKeys(e.Path), "\x00")] = [2]int{ci, ei}
				}
			}
		}
		for ci, cl := range allCalls {
			for ei, e := range cl.Effects {
				if e.Unknown != "" {
					continue
				}
				keys := c09PathKeys(e.Path)
				if l, ok := last[strings.Join(keys, "\x00")]; ok && l != [2]int{ci, ei} {
					continue // overwritten by a later call of the sequence
				}
				got, gok := lookupPath(act, keys)
				var exp any
				var eok bool
				switch {
				case e.ArgIdx < 0:
					exp, eok = toJSONish(e.Const), true
				default:
					exp, eok = lookupPath(want, keys)
				}
				if e.Method == ast.AppendAssignment {
					pk := strings.Join(keys, ".")
					garr, _ := got.([]any)
					var darr []any
					if dv, ok := lookupPath(defObj, keys); ok {
						darr, _ = dv.([]any)
					}
					idx := len(darr) + appended[pk]
					appended[pk]++
					warr, _ := exp.([]any)
					wi := cl.ElemIdx
					if wi < 0 || wi >= len(warr) {
						continue
					}
					if idx >= len(garr) {
						r.Violation(lang+"/append-missing", fmt.Sprintf("%s builder %s: after %s, %s holds %d elements (default %d)", lang, cse.b.Name, seq[ci], pk, len(garr), len(darr)), replay)
						return
					}
					if d := jsonDiff(warr[wi], garr[idx], jsonCmpOpts{NullEqualsAbsent: true}, pk); d != "" {
						r.Violation(lang+"/append-wrong-value", fmt.Sprintf("%s builder %s: after %s: %s", lang, cse.b.Name, seq[ci], d), replay)
						return
					}
					continue
				}
				if !eok {
					exp = nil
				}
				if !gok {
					got = nil
				}
				if d := jsonDiff(exp, got, jsonCmpOpts{NullEqualsAbsent: true}, strings.Join(keys, ".")); d != "" {
					tag := stripDefaults(tagAtPath(cse.cs.AM, cse.obj.T, "."+strings.Join(keys, ".")))
					r.Violation(lang+"/target-value/"+tag, fmt.Sprintf("%s builder %s: after %s the target differs from the given value (expected vs object): %s", lang, cse.b.Name, strings.Join(seq, " → "), d), replay)
					return
				}
			}
		}
	}
	if defObj != nil {
		var paths [][]string
		for _, cl := range cse.calls {
			for _, e := range cl.Effects {
				paths = append(paths, c09PathKeys(e.Path))
			}
		}
		if cse.ctor != nil {
			for _, e := range cse.ctor.Effects {
				paths = append(paths, c09PathKeys(e.Path))
			}
		}
		if d := frameDiff(defObj, act, paths, ""); d != "" {
			r.Violation(lang+"/frame/"+maskMsg(truncate(d, 40)), fmt.Sprintf("%s builder %s: after %s a member no option targets differs from the default object: %s", lang, cse.b.Name, strings.Join(seq, " → "), d), replay)
			return
		}
	}
	// constructor constants survive (unless an option called here targets the same member)
	targeted := map[string]bool{}
	for _, cl := range cse.calls {
		for _, e := range cl.Effects {
			targeted[strings.Join(c09PathKeys(e.Path), ".")] = true
		}
	}
	for _, as := range lastConstants(cse.b.Constructor.Assignments) {
		if targeted[strings.Join(pathIdents(as.Path), ".")] {
			continue
		}
		got, ok := lookupPath(act, pathIdents(as.Path))
		if !ok || jsonDiff(toJSONish(as.Value.Constant), got, jsonCmpOpts{}, "") != "" {
			r.Violation(lang+"/constructor-constant-missing", fmt.Sprintf("%s builder %s: constructor constant %s=%v is not in the object after %s", lang, cse.b.Name, as.Path.String(), as.Value.Constant, strings.Join(seq, " → ")), replay)
			return
		}
	}
	// Go: what Build() returns is the observed state
	if lang == "go" && resp.BuildErr == "" && len(resp.Out) > 0 {
		out, _ := parseJSONNum(resp.Out)
		if d := jsonDiff(act, out, jsonCmpOpts{}, ""); d != "" {
			r.Violation("go/build-result-differs-from-state", fmt.Sprintf("Go builder %s: Build() returns an object that differs from builder.internal: %s", cse.b.Name, d), replay)
		}
	}
}

// c09Extras: fixed schemas whose builders are reshaped by veneers, so that options with nested target
// paths (nil-guards), appends, map indexes, constants and constructor arguments are executed too.
func c09Extras(caps amCaps) []corpusExtra {
	intW := pickWidthDefault(caps.IntWidths, "int64")
	fltW := pickWidthDefault(caps.FloatWidths, "float64")
	weight := bounded(tyw("float", fltW), 0.5, 90.25)
	if caps.Format == "cue" {
		weight = tyw("float", fltW) // two-sided float bounds are not loadable from CUE (C04 finding)
	}
	mkAM := func() *amSchema {
		return &amSchema{Pkg: "pk", Tags: map[string]int{"aimed": 1}, Objs: []*amObject{
			{"Custom", st(fld("lineStyle", true, strLen(1, 8)), fld("fillColor", false, ty("string")), fld("axisLabel", false, ty("string")), fld("width", false, bounded(tyw("int", intW), 0, 10)))},
			{"Defaults", st(fld("custom", false, rf("Custom")), fld("unit", false, ty("string")))},
			{"FieldConfig", st(fld("defaults", false, rf("Defaults")), fld("note", false, ty("string")))},
			{"Item", st(fld("name", true, strLen(1, 6)), fld("weight", false, weight), fld("on", false, ty("bool")))},
			{"Range", st(fld("from", true, strLen(1, 8)), fld("quick", true, arr(ty("string"))), fld("to", true, ty("string")), fld("marks", false, mp(ty("bool"))))},
			{"Row", st(fld("kind", true, konst("row")), fld("title", true, strLen(1, 8)))},
			{"Graph", st(fld("kind", true, konst("graph")), fld("name", true, strLen(1, 8)), fld("span", false, tyw("int", intW)))},
			{"Panel", st(
				fld("kind", true, konst("panel")),
				fld("elements", false, arr(&amType{K: "union", Disc: "kind", MinLen: -1, MaxLen: -1, Branches: []*amType{rf("Row"), rf("Graph")}})),
				fld("title", true, strLen(1, 12)),
				fld("note", false, ty("string")),
				fld("fieldConfig", false, rf("FieldConfig")),
				fld("visible", true, ty("bool")),
				fld("tags", true, arr(strLen(1, 5))),
				fld("items", false, arr(rf("Item"))),
				fld("byName", false, mp(rf("Item"))),
				fld("limits", false, mp(bounded(tyw("int", intW), 1, 50))),
				fld("leaf", false, rf("Item")),
				fld("span", false, rf("Range")),
				fld("main", true, rf("Item")),
			)},
		}}
	}
	v := func(builders, options string) string {
		return "language: all\npackage: pk\nbuilders:\n" + builders + "options:\n" + options
	}
	return []corpusExtra{
		{"plain", mkAM(), "", nil},
		{"merge-deep", mkAM(), v("  - merge_into: {destination: Panel, source: Custom, under_path: fieldConfig.defaults.custom}\n", ""), map[string]string{
			"Panel.lineStyle": "fieldConfig.defaults.custom.lineStyle", "Panel.fillColor": "fieldConfig.defaults.custom.fillColor",
			"Panel.axisLabel": "fieldConfig.defaults.custom.axisLabel", "Panel.width": "fieldConfig.defaults.custom.width", "Panel.title": "title"}},
		{"merge-2", mkAM(), v("  - merge_into: {destination: Panel, source: Defaults, under_path: fieldConfig.defaults}\n", ""), map[string]string{
			"Panel.custom": "fieldConfig.defaults.custom", "Panel.unit": "fieldConfig.defaults.unit"}},
		{"append-unfold", mkAM(), v("", "  - array_to_append: {by_name: Panel.tags}\n  - array_to_append: {by_name: Panel.items}\n  - unfold_boolean: {by_name: Panel.visible, true_as: show, false_as: hide}\n"), map[string]string{
			"Panel.tags": "tags+", "Panel.items": "items+", "Panel.show": "visible", "Panel.hide": "visible"}},
		{"append-union", mkAM(), v("", "  - array_to_append: {by_name: Panel.elements}\n  - disjunction_as_options: {by_name: Panel.elements}\n"), map[string]string{
			"Panel.row": "elements+", "Panel.graph": "elements+", "Panel.Row": "elements+", "Panel.Graph": "elements+"}},
		{"append-union-alias", mkAM(), v("", "  - array_to_append: {by_name: Panel.elements}\n  - disjunction_as_options: {by_name: Panel.elements}\n  - duplicate: {by_name: Panel.row, as: addRow}\n  - array_to_append: {by_name: Panel.items}\n  - duplicate: {by_name: Panel.items, as: addItem}\n"), nil},
		{"multi-builder", mkAM(), v("  - duplicate: {by_object: Item, as: Thing}\n  - initialize: {by_name: Item, set: [{property: on, value: true}, {property: weight, value: 1.5}]}\n  - initialize: {by_name: Thing, set: [{property: on, value: true}, {property: weight, value: 2.5}]}\n", "  - omit: {by_name: Item.weight}\n  - omit: {by_name: Thing.weight}\n  - omit: {by_name: Item.on}\n  - omit: {by_name: Thing.on}\n"), nil},
		// a generic builder kept next to a specialised one: only one of the two pins constants in its constructor
		{"multi-builder-partial", mkAM(), v("  - duplicate: {by_object: Item, as: Thing}\n  - initialize: {by_name: Thing, set: [{property: on, value: true}, {property: weight, value: 2.5}]}\n", "  - omit: {by_name: Thing.weight}\n  - omit: {by_name: Thing.on}\n"), nil},
		{"index-args", mkAM(), v("", "  - map_to_index: {by_name: Panel.byName}\n  - map_to_index: {by_name: Panel.limits}\n  - struct_fields_as_arguments: {by_name: Panel.leaf}\n  - struct_fields_as_arguments: {by_name: Panel.span}\n"), map[string]string{
			"Panel.byName": "byName.", "Panel.limits": "limits.", "Panel.leaf": "leaf.name,leaf.weight,leaf.on", "Panel.span": "span.from,span.quick,span.to,span.marks"}},
		{"ctor", mkAM(), v("  - promote_options_to_constructor: {by_object: Panel, options: [title, main, note]}\n  - initialize: {by_object: Item, set: [{property: on, value: true}]}\n", "  - struct_fields_as_options: {by_name: Panel.leaf}\n"), map[string]string{
			"Panel.name": "leaf.name", "Panel.weight": "leaf.weight", "Panel.on": "leaf.on"}},
		{"rename-dup", mkAM(), v("  - duplicate: {by_object: Item, as: Thing}\n", "  - rename: {by_name: Panel.title, as: heading}\n  - duplicate: {by_name: Panel.tags, as: labels}\n  - omit: {by_name: Panel.limits}\n"), map[string]string{
			"Panel.heading": "title", "Panel.labels": "tags", "Panel.tags": "tags", "Thing.name": "name"}},
	}
}

// c09Intent: which member an option is *meant* to write. Without veneers an option is derived from one
// struct field and writes that field; in the fixed veneer workloads the intent is declared next to the
// rules. The IR the jennies receive must agree, otherwise the executed code faithfully writes elsewhere.
func c09Intent(r *Run, cs *corpusSchema, lang string, b ast.Builder, obj *amObject) {
	replay := map[string]any{"format": cs.Format, "veneers": cs.Veneers, "language": lang, "builder": b.Name, "schema": string(cs.SchemaText)}
	got := func(opt ast.Option) string {
		var ps []string
		for _, as := range opt.Assignments {
			p := strings.Join(pathIdents(as.Path), ".")
			if len(as.Path) > 0 && as.Path[len(as.Path)-1].Index != nil {
				p = strings.TrimSuffix(p, ".") + "."
			}
			if as.Method == ast.AppendAssignment {
				p += "+"
			}
			ps = append(ps, p)
		}
		sort.Strings(ps)
		return strings.Join(ps, ",")
	}
	for _, opt := range b.Options {
		r.Count("events.option_targets_compared_with_intent", 1)
		want, declared := "", false
		if cs.Veneers == "" {
			for _, f := range obj.T.Fields {
				if f.Name == opt.Name {
					want, declared = f.Name, true
				}
			}
			if !declared {
				r.Violation("ir/option-without-field", fmt.Sprintf("builder %s has option %s but the object has no such field", b.Name, opt.Name), replay)
				continue
			}
		} else {
			want, declared = cs.Targets[b.Name+"."+opt.Name], cs.Targets[b.Name+"."+opt.Name] != ""
		}
		if !declared {
			continue
		}
		ws := strings.Split(want, ",")
		sort.Strings(ws)
		want = strings.Join(ws, ",")
		if g := got(opt); g != want {
			r.Violation("ir/option-target-differs-from-intent/"+cs.Extra, fmt.Sprintf("%s: option %s.%s writes %s, meant to write %s", lang, b.Name, opt.Name, g, want), replay)
		}
	}
}

var c09ArgNameRe = regexp.MustCompile(`(len\()?[A-Za-z_][A-Za-z0-9_]*(\))? must be`)

// c09MaskErr removes argument names from Python constraint messages so that keys name the rule, not the field.
func c09MaskErr(msg string) string {
	return maskMsg(c09ArgNameRe.ReplaceAllString(msg, "${1}arg${2} must be"))
}

// c09Mismatch: the value an accepted document holds at the path an option writes does not even have the shape of
// the option's argument (an array where the argument is a struct, …): the IR handed to the jennies pairs an
// argument with a target it cannot fill. Reported once per option kind; Python-only limitations are not mismatches.
func c09Mismatch(r *Run, cs *corpusSchema, lang string, b ast.Builder, option, why string) {
	if !strings.Contains(why, "with non-object value") && !strings.Contains(why, "with non-array value") {
		return
	}
	r.Violation("ir/argument-does-not-fit-its-target/"+cs.Extra+"/"+afterColon(why), fmt.Sprintf("%s: option %s.%s takes an argument that the value stored at its target path can never be (%s)", lang, b.Name, option, why), map[string]any{"format": cs.Format, "veneers": cs.Veneers, "language": lang, "builder": b.Name, "option": option, "schema": string(cs.SchemaText)})
}

// lastConstants: the constant assignments of a constructor, keeping for every path only the last one (a later
// `initialize` rule legitimately overrides an earlier one).
func lastConstants(as []ast.Assignment) []ast.Assignment {
	last := map[string]int{}
	for i, a := range as {
		if a.Value.Constant != nil {
			last[strings.Join(pathIdents(a.Path), ".")] = i
		}
	}
	var out []ast.Assignment
	for i, a := range as {
		if a.Value.Constant != nil && last[strings.Join(pathIdents(a.Path), ".")] == i {
			out = append(out, a)
		}
	}
	return out
}
