package main

import (
	"encoding/json"
	"fmt"
	"os"
	"regexp"
	"strings"
)

// C08 — generated Validate() and strict decoding reject exactly what the schema forbids.
// Executed corpus with `generate_validate`: valid documents must pass both; single-fault documents
// (labelled by docgen, label cross-checked with the source format's reference validator) must be
// caught by the right mechanism, at the right path.

func init() { register("C08", checkC08) }

var pathTokenRe = regexp.MustCompile(`[A-Za-z0-9_]+`)

func pathTokens(p string) []string { return pathTokenRe.FindAllString(p, -1) }

// pathMatches: the reported path ends at the faulty location and contains its ancestors in order.
func pathMatches(reported string, fault []string) bool {
	rt := pathTokens(reported)
	var ft []string
	for _, s := range fault {
		ft = append(ft, pathTokens(s)...)
	}
	if len(ft) == 0 || len(rt) == 0 {
		return false
	}
	if rt[len(rt)-1] != ft[len(ft)-1] {
		return false
	}
	// subsequence
	i := 0
	for _, t := range rt {
		if i < len(ft) && t == ft[i] {
			i++
		}
	}
	return i == len(ft)
}

func checkC08(r *Run) {
	n := r.n(14, 220)
	r.Rule = "AM schemas with constraints at every depth (inside arrays, maps, optional fields, referenced and union-branch structs), 3 formats, Go types with validate + strict unmarshaller; per struct object: valid documents + single-fault documents (bound, length, unknown key, missing required, null for required, wrong JSON type) accepted/rejected by the reference validator as labelled. distinct_nontrivial = distinct (schema, object, document) triples executed"
	c := buildCorpus(r, corpusOpts{N: n, Formats: []string{"jsonschema", "openapi", "cue"}, Profile: "constraints,defaults", Langs: []string{"go"}, DocsPerObj: r.n(5, 8), Faults: r.n(10, 24), Tag: "c08"})
	defer c.cleanup()
	if err := c.buildGoDriver(); err != nil {
		r.Inconclusive("go driver: " + err.Error())
		return
	}
	for sid, d := range c.BrokenGo {
		r.CaseInconclusive("generated Go of " + sid + " does not compile (C02's business): " + d)
	}
	type meta struct {
		cs  *corpusSchema
		obj *amObject
		doc amDoc
	}
	var reqs []drvReq
	metas := map[string]meta{}
	for _, cs := range c.Schemas {
		if !cs.GoOK {
			continue
		}
		for _, on := range sortedObjNames(cs.Docs) {
			if !cs.GoTypes[on] {
				continue
			}
			obj := cs.AM.obj(on)
			for i, d := range cs.Docs[on] {
				id := fmt.Sprintf("%s.%s#v%d", cs.ID, on, i)
				reqs = append(reqs, drvReq{ID: id, Op: "roundtrip", Type: cs.ID + "." + on, Doc: d.JSON()})
				metas[id] = meta{cs, obj, d}
			}
			for i, d := range cs.Faults[on] {
				// the label must be confirmed by the reference validator: the faulty document is rejected
				if err := cs.Validator.Validate(on, d.JSON()); err == nil {
					r.Count("fault_docs_accepted_by_reference_validator(discarded)/"+d.Fault.Class, 1)
					continue
				}
				id := fmt.Sprintf("%s.%s#f%d", cs.ID, on, i)
				reqs = append(reqs, drvReq{ID: id, Op: "roundtrip", Type: cs.ID + "." + on, Doc: d.JSON()})
				metas[id] = meta{cs, obj, d}
			}
		}
	}
	resps, err := c.runGo(reqs)
	if err != nil {
		r.Inconclusive("go driver run: " + err.Error())
	}
	for _, q := range reqs {
		m := metas[q.ID]
		resp, ok := resps[q.ID]
		if !ok {
			r.CaseInconclusive("no driver response for " + q.ID)
			continue
		}
		r.Eval()
		if os.Getenv("VERIF_DEBUG") == m.obj.Name && m.obj.Name != "" {
			fmt.Printf("DEBUG %s %s [%s] doc=%s validateErr=%q strictErr=%q panic=%q\n", m.cs.Format, m.obj.Name, m.doc.Label, truncate(string(q.Doc), 200), resp.ValidateErr, resp.StrictErr, resp.Panic)
		}
		r.Distinct(q.ID + string(q.Doc))
		replay := map[string]any{"format": m.cs.Format, "object": m.obj.Name, "document": string(q.Doc), "label": m.doc.Label, "schema": string(m.cs.SchemaText)}
		if resp.Panic != "" {
			r.Violation("generated-code-panic/"+maskMsg(resp.Panic), fmt.Sprintf("%s on document %s (%s)", resp.Panic, q.Doc, m.doc.Label), replay)
			continue
		}
		if m.doc.Fault == nil {
			r.Count("events.valid", 1)
			if resp.DecodeErr != "" {
				continue // C01's business
			}
			if resp.ValidateErr != "" {
				p := firstLine(resp.ValidateErr)
				tag := tagAtPath(m.cs.AM, m.obj.T, "."+strings.Join(pathTokens(strings.SplitN(p, ":", 2)[0]), "."))
				r.Violation("validate-rejects-valid/"+stripDefaults(tag)+"/"+maskMsg(afterColon(p)), fmt.Sprintf("Validate() fails on a document the schema accepts: %s\ndocument: %s", resp.ValidateErr, q.Doc), replay)
			}
			continue
		}
		f := m.doc.Fault
		r.Count("events.fault/"+f.Class, 1)
		switch f.Class {
		case "bound", "length":
			if resp.DecodeErr != "" {
				r.Count("constraint_fault_not_decodable(skipped)", 1)
				continue
			}
			if resp.ValidateErr == "" {
				rawTag := tagAtPath(m.cs.AM, m.obj.T, faultPathString(f.Path))
				rawTag = strings.NewReplacer("/required", "", "/optional", "").Replace(rawTag)
				if chain := containerChain(m.cs.AM, m.obj.T, f.Path); strings.Contains(chain, "ref>array") || strings.Contains(chain, "ref>map") {
					// constraint reached through a reference to a *named* array/map object
					r.Violation("validate-misses-violation/via-reference-to-named-collection", fmt.Sprintf("Validate() returns nil although %s violates a %s constraint at %s (reached through %s)", q.Doc, f.Class, strings.Join(f.Path, "."), chain), replay)
					continue
				}
				if docv, err := parseJSONNum(q.Doc); err == nil {
					if marker := cueDefaultLoss(m.cs.Format, f.Class, rawTag, leafAt(docv, f.Path)); marker != "" {
						// the constraint is already missing from the IR, wherever the type sits
						r.Violation("validate-misses-violation/"+marker, fmt.Sprintf("Validate() returns nil although %s violates a %s constraint at %s", q.Doc, f.Class, strings.Join(f.Path, ".")), replay)
						continue
					}
				}
				r.Violation("validate-misses-violation/"+m.cs.Format+"/"+f.Class+"/"+rawTag+"/"+leafContainer(containerChain(m.cs.AM, m.obj.T, f.Path)), fmt.Sprintf("Validate() returns nil although %s violates a %s constraint at %s", q.Doc, f.Class, strings.Join(f.Path, ".")), replay)
			} else {
				found := false
				for _, line := range strings.Split(resp.ValidateErr, "\n") {
					if pathMatches(strings.SplitN(line, ":", 2)[0], f.Path) {
						found = true
					}
				}
				if !found {
					r.Violation("validate-wrong-path/"+f.Class+"/"+leafContainer(containerChain(m.cs.AM, m.obj.T, f.Path)), fmt.Sprintf("Validate() reports %q for a fault at %s", resp.ValidateErr, strings.Join(f.Path, ".")), replay)
				}
			}
			if resp.StrictErr != "" {
				if strings.Contains(resp.StrictErr, "unexpected end of JSON input") {
					r.Violation("strict-error/unexpected end of JSON input", fmt.Sprintf("UnmarshalJSONStrict fails on %s: %s", q.Doc, resp.StrictErr), replay)
					continue
				}
				if pm := strictPathRe.FindStringSubmatch(firstLine(resp.StrictErr)); pm != nil && belowNullElement(q.Doc, "."+pm[1]) {
					r.Count("strict_errors_below_a_null_collection_element(C01 finding, not judged here)", 1)
					continue
				}
				r.Violation("strict-rejects-constraint-only-fault/"+f.Class+"/"+maskMsg(afterColon(firstLine(resp.StrictErr))), fmt.Sprintf("the strict decoder rejects %s whose only fault is a %s constraint: %s", q.Doc, f.Class, resp.StrictErr), replay)
			}
		case "unknown-key", "missing-required", "null-required", "wrong-type":
			if f.Class == "missing-required" && faultFieldHasDefault(m.cs.AM, m.obj.T, f.Path) {
				// "lacks a required field that has no default": with a default the strict decoder must accept
				r.Count("events.missing_required_with_default", 1)
				if resp.StrictErr != "" && strings.Contains(resp.StrictErr, "missing") {
					tag := stripDefaults(tagAtPath(m.cs.AM, m.obj.T, faultPathString(f.Path)))
					r.Violation("strict-rejects-missing-required-with-default/"+m.cs.Format+"/"+tag, fmt.Sprintf("the strict decoder rejects %s although the missing required field %s has a default: %s", q.Doc, strings.Join(f.Path, "."), firstLine(resp.StrictErr)), replay)
				}
				continue
			}
			if resp.StrictErr == "" {
				r.Violation("strict-accepts/"+f.Class+"/"+leafContainer(containerChain(m.cs.AM, m.obj.T, f.Path)), fmt.Sprintf("the strict decoder accepts %s (fault: %s at %s)", q.Doc, f.Class, strings.Join(f.Path, ".")), replay)
			}
		}
	}
}

func firstLine(s string) string {
	if i := strings.Index(s, "\n"); i >= 0 {
		return s[:i]
	}
	return s
}

func afterColon(s string) string {
	if i := strings.Index(s, ": "); i >= 0 {
		return s[i+2:]
	}
	return s
}

func stripDefaults(tag string) string {
	return strings.NewReplacer("+default", "").Replace(tag)
}

func pathTokensOf(path []string) []string {
	var out []string
	for _, s := range path {
		if strings.HasPrefix(s, "[") {
			out = append(out, s)
			continue
		}
		out = append(out, strings.Trim(s, "{}"))
	}
	// tagAtPath understands ".field" and "[i]"; map keys are written like fields
	for i, s := range out {
		if strings.HasPrefix(s, "[") {
			out[i] = strings.Trim(s, "[]")
		}
	}
	return out
}

// containerChain describes what lies between the root struct and the faulty leaf: e.g. "array>ref>struct".
func containerChain(s *amSchema, root *amType, path []string) string {
	cur := root
	var chain []string
	for _, step := range path {
		rt := s.resolve(cur)
		if rt == nil {
			break
		}
		if cur.K == "ref" {
			chain = append(chain, "ref")
		}
		switch {
		case strings.HasPrefix(step, "["):
			chain = append(chain, "array")
			cur = rt.Elem
		case strings.HasPrefix(step, "{"):
			chain = append(chain, "map")
			cur = rt.Elem
		default:
			var next *amType
			if rt.K == "union" {
				for _, b := range rt.Branches {
					bt := s.resolve(b)
					if bt == nil {
						continue
					}
					for _, f := range bt.Fields {
						if f.Name == step {
							next = f.T
						}
					}
				}
				chain = append(chain, "union-branch")
			}
			for _, f := range rt.Fields {
				if f.Name == step {
					next = f.T
					if !f.Required {
						chain = append(chain, "optional")
					}
					if f.T.Nullable {
						chain = append(chain, "nullable")
					}
				}
			}
			if next == nil {
				return strings.Join(chain, ">") + ">?"
			}
			cur = next
		}
		if cur == nil {
			break
		}
	}
	if len(chain) == 0 {
		return "top-level-field"
	}
	// collapse repetitions
	var out []string
	for _, c := range chain {
		if len(out) == 0 || out[len(out)-1] != c {
			out = append(out, c)
		}
	}
	return strings.Join(out, ">")
}

func faultFieldHasDefault(s *amSchema, root *amType, path []string) bool {
	cur := root
	for _, step := range path {
		rt := s.resolve(cur)
		if rt == nil {
			return false
		}
		switch {
		case strings.HasPrefix(step, "["), strings.HasPrefix(step, "{"):
			cur = rt.Elem
		default:
			var next *amType
			cands := []*amType{rt}
			if rt.K == "union" {
				for _, b := range rt.Branches {
					cands = append(cands, s.resolve(b))
				}
			}
			for _, ct := range cands {
				if ct == nil {
					continue
				}
				for _, f := range ct.Fields {
					if f.Name == step {
						next = f.T
					}
				}
			}
			if next == nil {
				return false
			}
			cur = next
		}
	}
	if cur == nil {
		return false
	}
	if cur.Default != nil {
		return true
	}
	// a reference to an enum / struct whose target declares a default does not count: only the field's own default
	return false
}

// cueDefaultLoss names two losses of the CUE loader that do not depend on where the type sits: a string with a
// default (`strings.MaxRunes(6) | *"d"`) loses its length constraints, and an integer with a default whose lower bound
// is zero (`int & >=0 & <37 | *12`) loses that bound (CUE rewrites the operand into `uint & <37`, cog reads the type
// from the whole expression and the constraints from the rewritten operand). "" when neither applies.
func cueDefaultLoss(format, class, rawTag string, leaf any) string {
	if format != "cue" || !strings.Contains(rawTag, "+default") {
		return ""
	}
	switch {
	case class == "length" && strings.Contains(rawTag, "string"):
		return "cue-default-drops-length-constraints"
	case class == "bound" && strings.Contains(rawTag, "int"):
		if n, ok := leaf.(json.Number); ok && string(n) == "-1" {
			return "cue-default-drops-lower-bound-zero"
		}
	}
	return ""
}

// leafContainer keeps what matters for validation reach: whether the leaf sits in a collection.
func leafContainer(chain string) string {
	switch {
	case strings.Contains(chain, "array>array"), strings.Contains(chain, "map>map"):
		return "nested-collection"
	case strings.Contains(chain, "array"), strings.Contains(chain, "map"):
		return "collection"
	case strings.Contains(chain, "union-branch"):
		return "union-branch"
	}
	return "field"
}

// faultPathString renders docgen path steps in the notation tagAtPath understands (".a[0].k").
func faultPathString(path []string) string {
	var sb strings.Builder
	for _, s := range path {
		switch {
		case strings.HasPrefix(s, "["):
			sb.WriteString(s)
		case strings.HasPrefix(s, "{"):
			sb.WriteString("." + strings.Trim(s, "{}"))
		default:
			sb.WriteString("." + s)
		}
	}
	return sb.String()
}
