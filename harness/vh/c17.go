package main

import (
	"fmt"
	"os"
	"path/filepath"
	"strings"

	"github.com/grafana/cog/internal/ast"
	"github.com/grafana/cog/internal/veneers/rewrite"
	cogyaml "github.com/grafana/cog/internal/yaml"
)

// C17 — builder transformations keep builders well-typed and do only what they document.
// Online monitor fed by the veneer.*_rule.before/after hooks of the real rewriter: after every rule
// (i) a well-typedness walker over every assignment of every builder, (ii) a frame check for the
// builders/options the harness' own selector evaluation says are not selected, (iii) the rule's
// contract. Rules are generated as YAML and loaded through yaml.VeneersLoader.

func init() { register("C17", checkC17) }

// ---- well-typedness ---------------------------------------------------------------------

func sameTypeShape(a, b ast.Type) bool {
	if a.Kind != b.Kind {
		return false
	}
	switch a.Kind {
	case ast.KindRef:
		return a.Ref != nil && b.Ref != nil && *a.Ref == *b.Ref
	case ast.KindScalar:
		return a.Scalar != nil && b.Scalar != nil && a.Scalar.ScalarKind == b.Scalar.ScalarKind
	case ast.KindArray:
		return a.Array != nil && b.Array != nil && sameTypeShape(a.Array.ValueType, b.Array.ValueType)
	case ast.KindMap:
		return a.Map != nil && b.Map != nil && sameTypeShape(a.Map.ValueType, b.Map.ValueType)
	}
	return true
}

// pathProblem folds a path from the built object's type; returns "" when every step names an
// existing field / index of matching type.
func pathProblem(schemas ast.Schemas, root ast.Type, path ast.Path) string {
	cur := root
	for i, item := range path {
		if item.Root {
			continue
		}
		res, ok := modelResolve(schemas, cur)
		if !ok {
			return fmt.Sprintf("step %d: unresolved reference", i)
		}
		if item.Index != nil {
			switch res.Kind {
			case ast.KindMap:
				cur = res.Map.ValueType
			case ast.KindArray:
				cur = res.Array.ValueType
			default:
				return fmt.Sprintf("step %d: index into a %s", i, res.Kind)
			}
			if item.Index.Argument == nil && item.Index.Constant == nil {
				return fmt.Sprintf("step %d: index with neither argument nor constant", i)
			}
			if !sameTypeShape(item.Type, cur) {
				return fmt.Sprintf("step %d: index item typed %s, element type is %s", i, typeSummary(item.Type, 0), typeSummary(cur, 0))
			}
			continue
		}
		if res.Kind == ast.KindScalar && res.Scalar != nil && res.Scalar.ScalarKind == ast.KindAny && i > 0 && path[i-1].TypeHint != nil && path[i-1].TypeHint.Kind == ast.KindRef {
			// an `any` slot with a type hint (the compose rule): the hint says what the slot holds
			hinted, ok := modelResolve(schemas, *path[i-1].TypeHint)
			if !ok {
				return fmt.Sprintf("step %d: the type hint of %q names an object that does not exist", i-1, path[i-1].Identifier)
			}
			res = hinted
		}
		if res.Kind == ast.KindIntersection || res.Kind == ast.KindDisjunction || (res.Kind == ast.KindScalar && res.Scalar != nil && res.Scalar.ScalarKind == ast.KindAny) {
			return "" // not a plain struct chain: out of the walker's reach
		}
		if res.Kind != ast.KindStruct || res.Struct == nil {
			return fmt.Sprintf("step %d (%s): parent is a %s, not a struct", i, item.Identifier, res.Kind)
		}
		var f *ast.StructField
		for fi := range res.Struct.Fields {
			if res.Struct.Fields[fi].Name == item.Identifier {
				f = &res.Struct.Fields[fi]
			}
		}
		if f == nil {
			return fmt.Sprintf("step %d: no field %q in the struct reached by %q", i, item.Identifier, ast.Path(path[:i]).String())
		}
		if !sameTypeShape(item.Type, f.Type) {
			return fmt.Sprintf("step %d (%s): path item typed %s, field is %s", i, item.Identifier, typeSummary(item.Type, 0), typeSummary(f.Type, 0))
		}
		cur = f.Type
	}
	return ""
}

func argDeclared(args []ast.Argument, a *ast.Argument) bool {
	for _, d := range args {
		if d.Name == a.Name && sameTypeShape(d.Type, a.Type) {
			return true
		}
	}
	return false
}

func valueArgsProblem(args []ast.Argument, v ast.AssignmentValue) string {
	if v.Argument != nil && !argDeclared(args, v.Argument) {
		return fmt.Sprintf("assignment uses argument %q (%s) which the option/constructor does not declare", v.Argument.Name, typeSummary(v.Argument.Type, 0))
	}
	if v.Envelope != nil {
		for _, ev := range v.Envelope.Values {
			if p := valueArgsProblem(args, ev.Value); p != "" {
				return p
			}
		}
	}
	return ""
}

type wtProblem struct {
	class, detail, where string
}

func wellTypedProblems(schemas ast.Schemas, builders []ast.Builder) []wtProblem {
	var out []wtProblem
	check := func(b ast.Builder, where string, args []ast.Argument, as []ast.Assignment) {
		for ai, a := range as {
			w := fmt.Sprintf("%s.%s %s assignment #%d (path %s)", b.Package, b.Name, where, ai, a.Path.String())
			if len(a.Path) == 0 {
				out = append(out, wtProblem{"empty-path", "assignment with an empty path", w})
				continue
			}
			if p := pathProblem(schemas, b.For.Type, a.Path); p != "" {
				out = append(out, wtProblem{"path", p, w})
				continue
			}
			if p := valueArgsProblem(args, a.Value); p != "" {
				out = append(out, wtProblem{"undeclared-argument", p, w})
			}
			for _, c := range a.Constraints {
				if !argDeclared(args, &c.Argument) {
					out = append(out, wtProblem{"constraint-on-undeclared-argument", fmt.Sprintf("constraint bound to %q", c.Argument.Name), w})
				}
			}
			// what is assigned must fit where it is assigned
			if a.Value.Argument != nil {
				last := a.Path[len(a.Path)-1].Type
				want := last
				if a.Method == ast.AppendAssignment {
					if res, ok := modelResolve(schemas, last); ok && res.Kind == ast.KindArray {
						want = res.Array.ValueType
					}
				}
				if !sameTypeShape(a.Value.Argument.Type, want) && want.Kind != ast.KindDisjunction && a.Value.Argument.Type.Kind != ast.KindDisjunction {
					if r1, ok1 := modelResolve(schemas, want); ok1 && r1.Kind == ast.KindDisjunction {
						continue
					}
					if want.Kind == ast.KindScalar && want.Scalar != nil && want.Scalar.ScalarKind == ast.KindAny {
						continue
					}
					out = append(out, wtProblem{"argument-type-vs-target", fmt.Sprintf("argument %s does not fit the target %s (method %s)", typeSummary(a.Value.Argument.Type, 0), typeSummary(want, 0), a.Method), w})
				}
			}
		}
	}
	for _, b := range builders {
		check(b, "constructor", b.Constructor.Args, b.Constructor.Assignments)
		for _, o := range b.Options {
			check(b, "option "+o.Name, o.Args, o.Assignments)
		}
	}
	return out
}

// ---- rules ------------------------------------------------------------------------------

type venRule struct {
	scope  string // builder | option
	kind   string
	yaml   string
	pkg    string
	object string // builder selector: by_object (object name) ; option selector: object name
	option string
	params map[string]string
	descr  string
	late   bool // language-specific file: applied after every `language: all` rule
}

func (v venRule) selectsBuilder(b ast.Builder) bool {
	if v.kind == "merge_into" {
		// the destination is designated by builder name
		return strings.EqualFold(b.For.SelfRef.ReferredPkg, v.pkg) && strings.EqualFold(b.Name, v.object)
	}
	return strings.EqualFold(b.For.SelfRef.ReferredPkg, v.pkg) && strings.EqualFold(b.For.SelfRef.ReferredType, v.object)
}

func (v venRule) selectsOption(b ast.Builder, o ast.Option) bool {
	return b.For.SelfRef.ReferredPkg == v.pkg && strings.EqualFold(b.For.Name, v.object) && strings.EqualFold(o.Name, v.option)
}

func stripVeneerTrail(b ast.Builder) ast.Builder {
	c := b
	c.VeneerTrail = nil
	opts := make([]ast.Option, len(b.Options))
	for i, o := range b.Options {
		o.VeneerTrail = nil
		opts[i] = o
	}
	c.Options = opts
	return c
}

func canonBuilder(b ast.Builder) string { return canon(stripVeneerTrail(b)) }
func canonOption(o ast.Option) string {
	o.VeneerTrail = nil
	return canon(o)
}

type c17Monitor struct {
	r           *Run
	pkgRules    map[string][]venRule // kept in file order
	bRules      []venRule
	oRules      []venRule
	before      []ast.Builder // deep snapshot taken at the "before" event
	beforeCanon []string
	ctx         string
	replay      map[string]any
	events      int
	bCount      int // builder-rule "after" events seen in this case (phase 1 rules come first, then the language-specific ones)
	oCount      int
}

func snapshotBuilders(bs []ast.Builder) []ast.Builder {
	out := make([]ast.Builder, len(bs))
	for i := range bs {
		out[i] = cloneBuilderViaReflect(bs[i])
	}
	return out
}

func (m *c17Monitor) sink(site string, args ...any) {
	switch site {
	case "veneer.builder_rule.before", "veneer.option_rule.before":
		m.before = snapshotBuilders(args[2].([]ast.Builder))
	case "veneer.builder_rule.after":
		idx := m.bCount
		m.bCount++
		if idx < len(m.bRules) {
			m.events++
			m.judge(m.bRules[idx], args[1].(ast.Schemas), m.before, args[2].([]ast.Builder))
		}
	case "veneer.option_rule.after":
		idx := m.oCount
		m.oCount++
		if idx < len(m.oRules) {
			m.events++
			m.judge(m.oRules[idx], args[1].(ast.Schemas), m.before, args[2].([]ast.Builder))
		}
	}
}

func (m *c17Monitor) violation(rule venRule, class, detail string) {
	m.r.Violation("veneer/"+rule.scope+"."+rule.kind+"/"+class, fmt.Sprintf("%s\nrule: %s [%s]", detail, rule.descr, m.ctx), m.replay)
}

func (m *c17Monitor) judge(rule venRule, schemas ast.Schemas, before, after []ast.Builder) {
	if os.Getenv("VERIF_DEBUG") == rule.kind {
		for _, b := range after {
			if b.Name != rule.object {
				continue
			}
			for _, o := range b.Options {
				if strings.EqualFold(o.Name, rule.option) {
					fmt.Printf("DEBUG after %s: option %s args=%d", rule.descr, o.Name, len(o.Args))
					for _, a := range o.Args {
						fmt.Printf(" arg:%s", a.Name)
					}
					for _, as := range o.Assignments {
						an := "-"
						if as.Value.Argument != nil {
							an = as.Value.Argument.Name
						}
						fmt.Printf(" assign:%s<-%s", as.Path.String(), an)
					}
					fmt.Println()
				}
			}
		}
	}
	// (i) well-typedness: only problems that this rule introduced
	had := map[string]bool{}
	for _, p := range wellTypedProblems(schemas, before) {
		had[p.class+p.where] = true
	}
	for _, p := range wellTypedProblems(schemas, after) {
		if !had[p.class+p.where] {
			// was the offending option already rewritten by an earlier rule of the sequence?
			suffix := ""
			for _, b := range before {
				for _, o := range b.Options {
					if rule.scope == "option" && rule.selectsOption(b, o) && len(o.VeneerTrail) > 0 {
						t := o.VeneerTrail[len(o.VeneerTrail)-1]
						if i := strings.Index(t, "["); i > 0 {
							t = t[:i]
						}
						suffix = "/on-option-already-rewritten-by-" + t
					}
				}
			}
			m.violation(rule, "ill-typed/"+p.class+suffix, p.where+": "+p.detail)
			break
		}
	}
	// (ii) frame + (iii) contracts
	if rule.scope == "builder" {
		m.judgeBuilderRule(rule, schemas, before, after)
	} else {
		m.judgeOptionRule(rule, schemas, before, after)
	}
}

func (m *c17Monitor) judgeBuilderRule(rule venRule, schemas ast.Schemas, before, after []ast.Builder) {
	var selected, unselected []ast.Builder
	for _, b := range before {
		if rule.selectsBuilder(b) {
			selected = append(selected, b)
		} else {
			unselected = append(unselected, b)
		}
	}
	// frame: every unselected builder is still there, unchanged, in the same relative order
	ai := 0
	for _, u := range unselected {
		cu := canonBuilder(u)
		found := false
		for ; ai < len(after); ai++ {
			if canonBuilder(after[ai]) == cu {
				found = true
				ai++
				break
			}
		}
		if !found {
			m.violation(rule, "frame/unselected-builder-changed", fmt.Sprintf("builder %s.%s is not selected by the rule but is modified, reordered or gone", u.Package, u.Name))
			return
		}
	}
	switch rule.kind {
	case "omit":
		if len(after) != len(unselected) {
			m.violation(rule, "contract/omit", fmt.Sprintf("%d builders before, %d selected, %d after", len(before), len(selected), len(after)))
		}
	case "rename":
		if len(after) != len(before) {
			m.violation(rule, "contract/rename-count", "rename changed the number of builders")
			return
		}
		for i, b := range before {
			if !rule.selectsBuilder(b) {
				continue
			}
			want := stripVeneerTrail(b)
			want.Name = rule.params["as"]
			if canon(want) != canonBuilder(after[i]) {
				p, d := firstDiff(want, stripVeneerTrail(after[i]))
				m.violation(rule, "contract/rename-only-renames", fmt.Sprintf("renamed builder differs from the original beyond its name at %s: %s", p, d))
			}
		}
	case "duplicate":
		if len(after) != len(before)+len(selected) {
			m.violation(rule, "contract/duplicate-count", fmt.Sprintf("%d selected, %d→%d builders", len(selected), len(before), len(after)))
			return
		}
		for si, src := range selected {
			dup := after[len(before)+si]
			want := stripVeneerTrail(src)
			want.Name = rule.params["as"]
			if canon(want) != canonBuilder(dup) {
				p, d := firstDiff(want, stripVeneerTrail(dup))
				m.violation(rule, "contract/duplicate-identical-copy/"+normPath(p), fmt.Sprintf("the duplicate differs from its source at %s: %s", p, d))
			}
			// independence of the copy (C18 for duplicate rules)
			for _, cur := range after[:len(before)] {
				if rule.selectsBuilder(cur) {
					if sp := sharedRefs(cur, dup); len(sp) > 0 {
						m.violation(rule, "contract/duplicate-independent-copy", fmt.Sprintf("duplicate shares structure with its source at %v", sp))
					}
				}
			}
		}
	case "merge_into":
		// every non-excluded option of the source is added to the destination, assigning under_path + original path
		if len(after) != len(before) {
			return
		}
		for i, b := range before {
			if !rule.selectsBuilder(b) {
				continue
			}
			var src *ast.Builder
			for j := range before {
				if before[j].For.SelfRef.ReferredPkg == b.For.SelfRef.ReferredPkg && before[j].Name == rule.params["source"] {
					src = &before[j]
					break
				}
			}
			if src == nil {
				continue
			}
			under := strings.Split(rule.params["under_path"], ".")
			added := after[i].Options[min(len(after[i].Options), len(b.Options)):]
			if len(added) != len(src.Options) {
				m.violation(rule, "contract/merge_into-option-count", fmt.Sprintf("%d options merged, source has %d", len(added), len(src.Options)))
				continue
			}
			// the constants the source sets in its constructor are set by the destination's, under the same path
			for _, sa := range src.Constructor.Assignments {
				if sa.Value.Constant == nil {
					continue
				}
				var want []string
				want = append(want, under...)
				for _, it := range sa.Path {
					want = append(want, it.Identifier)
				}
				found := false
				for _, da := range after[i].Constructor.Assignments {
					if da.Path.String() == strings.Join(want, ".") && da.Value.Constant != nil {
						found = true
					}
				}
				if !found {
					m.violation(rule, "contract/merge_into-constructor-constant", fmt.Sprintf("the source's constructor sets %s; the destination's constructor does not set %s", sa.Path.String(), strings.Join(want, ".")))
					return
				}
			}
			for oi, so := range src.Options {
				for ai2, sa := range so.Assignments {
					if ai2 >= len(added[oi].Assignments) {
						continue
					}
					var want []string
					want = append(want, under...)
					for _, it := range sa.Path {
						want = append(want, it.Identifier)
					}
					if got := added[oi].Assignments[ai2].Path.String(); got != strings.Join(want, ".") {
						m.violation(rule, "contract/merge_into-path", fmt.Sprintf("merged option %s assigns %s, expected %s", so.Name, got, strings.Join(want, ".")))
						return
					}
				}
			}
		}
	}
}

func (m *c17Monitor) judgeOptionRule(rule venRule, schemas ast.Schemas, before, after []ast.Builder) {
	if len(before) != len(after) {
		m.violation(rule, "frame/builder-count", "an option rule changed the number of builders")
		return
	}
	for bi, b := range before {
		ab := after[bi]
		// builder-level frame
		bb, aa := stripVeneerTrail(b), stripVeneerTrail(ab)
		bb.Options, aa.Options = nil, nil
		if canon(bb) != canon(aa) {
			m.violation(rule, "frame/builder-changed-by-option-rule", fmt.Sprintf("builder %s.%s changed outside its options", b.Package, b.Name))
			return
		}
		ai := 0
		skipUntil := -1
		for oidx, o := range b.Options {
			if oidx <= skipUntil {
				continue
			}
			if !rule.selectsOption(b, o) {
				if ai >= len(ab.Options) || canonOption(ab.Options[ai]) != canonOption(o) {
					m.violation(rule, "frame/unselected-option-changed", fmt.Sprintf("option %s.%s.%s is not selected but is modified, reordered or gone", b.Package, b.Name, o.Name))
					return
				}
				ai++
				continue
			}
			// how many options did the action produce? everything up to the next unselected option.
			// Runs of several adjacent selected options cannot be split unambiguously: not judged.
			oi := indexOfOption(b.Options, o)
			adjacent := (oi+1 < len(b.Options) && rule.selectsOption(b, b.Options[oi+1])) || (oi > 0 && rule.selectsOption(b, b.Options[oi-1]))
			nextUnselected := ""
			found := false
			for _, o2 := range b.Options[oi+1:] {
				if !rule.selectsOption(b, o2) {
					nextUnselected = canonOption(o2)
					found = true
					break
				}
			}
			start := ai
			for ai < len(ab.Options) && !(found && canonOption(ab.Options[ai]) == nextUnselected) {
				ai++
			}
			produced := ab.Options[start:ai]
			if adjacent {
				m.r.Count("adjacent_selected_options(contract not judged)", 1)
				// consume the whole run once
				for oi+1 < len(b.Options) && rule.selectsOption(b, b.Options[oi+1]) {
					oi++
				}
				skipUntil = oi
				continue
			}
			m.optionContract(rule, schemas, b, o, produced)
		}
	}
}

func indexOfOption(opts []ast.Option, o ast.Option) int {
	c := canon(o)
	for i := range opts {
		if canon(opts[i]) == c {
			return i
		}
	}
	return 0
}

func samePathIdents(a, b ast.Path) bool {
	if len(a) != len(b) {
		return false
	}
	for i := range a {
		if a[i].Identifier != b[i].Identifier || (a[i].Index == nil) != (b[i].Index == nil) {
			return false
		}
	}
	return true
}

func (m *c17Monitor) optionContract(rule venRule, schemas ast.Schemas, b ast.Builder, o ast.Option, produced []ast.Option) {
	id := fmt.Sprintf("%s.%s.%s", b.Package, b.Name, o.Name)
	unchanged := len(produced) == 1 && canonOption(produced[0]) == canonOption(o)
	switch rule.kind {
	case "omit":
		if len(produced) != 0 {
			m.violation(rule, "contract/omit", id+" is still present")
		}
	case "rename":
		want := o
		want.Name = rule.params["as"]
		if len(produced) != 1 || canonOption(produced[0]) != canonOption(want) {
			m.violation(rule, "contract/rename-only-renames", id+": result differs from the original beyond its name")
		}
	case "duplicate":
		want := o
		want.Name = rule.params["as"]
		if len(produced) != 2 || canonOption(produced[0]) != canonOption(o) || canonOption(produced[1]) != canonOption(want) {
			detail := id + ": expected the original followed by an identical copy under the new name"
			if len(produced) == 2 {
				p, d := firstDiff(func() ast.Option { w := want; w.VeneerTrail = nil; return w }(), func() ast.Option { w := produced[1]; w.VeneerTrail = nil; return w }())
				detail += fmt.Sprintf(" (copy differs at %s: %s)", p, d)
				m.violation(rule, "contract/duplicate-identical-copy/"+normPath(p), detail)
				return
			}
			m.violation(rule, "contract/duplicate-identical-copy", detail)
			return
		}
		if sp := sharedRefs(produced[0], produced[1]); len(sp) > 0 {
			m.violation(rule, "contract/duplicate-independent-copy", fmt.Sprintf("%s: copy shares structure with the original at %v", id, sp))
		}
	case "array_to_append":
		if len(o.Args) != 1 || o.Args[0].Type.Kind != ast.KindArray {
			if !unchanged {
				m.violation(rule, "contract/array_to_append-not-applicable-must-not-change", id)
			}
			return
		}
		if len(produced) != 1 || len(produced[0].Assignments) < 1 || len(produced[0].Args) < 1 {
			m.violation(rule, "contract/array_to_append-shape", id)
			return
		}
		p := produced[0]
		if !samePathIdents(p.Assignments[0].Path, o.Assignments[0].Path) || p.Assignments[0].Method != ast.AppendAssignment {
			m.violation(rule, "contract/array_to_append-same-target", fmt.Sprintf("%s: assigns %s (%s), original %s", id, p.Assignments[0].Path.String(), p.Assignments[0].Method, o.Assignments[0].Path.String()))
		}
		if !sameTypeShape(p.Args[0].Type, o.Args[0].Type.Array.ValueType) {
			m.violation(rule, "contract/array_to_append-element-type", id+": argument is not the element type")
		}
		// what else the option assigned (constants added by add_assignment, …) is still assigned
		for ai := 1; ai < len(o.Assignments); ai++ {
			found := false
			for _, pa := range p.Assignments[1:] {
				if samePathIdents(pa.Path, o.Assignments[ai].Path) && pa.Method == o.Assignments[ai].Method && canon(pa.Value) == canon(o.Assignments[ai].Value) {
					found = true
				}
			}
			if !found {
				m.violation(rule, "contract/array_to_append-other-assignments-kept", fmt.Sprintf("%s: the assignment to %s is gone", id, o.Assignments[ai].Path.String()))
			}
		}
	case "map_to_index":
		if len(o.Args) != 1 || o.Args[0].Type.Kind != ast.KindMap {
			if !unchanged {
				m.violation(rule, "contract/map_to_index-not-applicable-must-not-change", id)
			}
			return
		}
		if len(produced) != 1 || len(produced[0].Args) != 2 || len(produced[0].Assignments) < 1 {
			m.violation(rule, "contract/map_to_index-shape", id)
			return
		}
		p := produced[0]
		pa := p.Assignments[0]
		if len(pa.Path) != len(o.Assignments[0].Path)+1 || !samePathIdents(pa.Path[:len(pa.Path)-1], o.Assignments[0].Path) || pa.Path[len(pa.Path)-1].Index == nil || pa.Method != ast.IndexAssignment {
			m.violation(rule, "contract/map_to_index-same-target", id+": does not index the original target")
		}
		if !sameTypeShape(p.Args[0].Type, o.Args[0].Type.Map.IndexType) || !sameTypeShape(p.Args[1].Type, o.Args[0].Type.Map.ValueType) {
			m.violation(rule, "contract/map_to_index-argument-types", id+": arguments are not (key type, value type)")
		}
	case "unfold_boolean":
		last := o.Assignments[0].Path.Last().Type
		if !(last.Kind == ast.KindScalar && last.Scalar != nil && last.Scalar.ScalarKind == ast.KindBool) {
			if !unchanged {
				m.violation(rule, "contract/unfold_boolean-not-applicable-must-not-change", id)
			}
			return
		}
		if len(produced) != 2 {
			m.violation(rule, "contract/unfold_boolean-two-options", id)
			return
		}
		for i, want := range []bool{true, false} {
			p := produced[i]
			if len(p.Args) != 0 || len(p.Assignments) != 1 || !samePathIdents(p.Assignments[0].Path, o.Assignments[0].Path) || p.Assignments[0].Value.Constant != want {
				m.violation(rule, "contract/unfold_boolean-constant-on-same-target", fmt.Sprintf("%s: option #%d", id, i))
			}
		}
	case "struct_fields_as_arguments", "struct_fields_as_options":
		if len(o.Args) < 1 {
			return
		}
		st, ok := modelResolve(schemas, o.Args[0].Type)
		if o.Args[0].Type.Kind == ast.KindRef {
			// "a struct or a reference to one": a reference to an alias of a struct is not judged
			if direct, found := schemas.LocateObject(o.Args[0].Type.Ref.ReferredPkg, o.Args[0].Type.Ref.ReferredType); !found || direct.Type.Kind != ast.KindStruct {
				return
			}
		}
		if !ok || st.Kind != ast.KindStruct || o.Args[0].Type.Kind == ast.KindArray {
			if !unchanged && !(ok && st.Kind == ast.KindStruct) {
				m.violation(rule, "contract/"+rule.kind+"-not-applicable-must-not-change", id)
			}
			return
		}
		prefix := o.Assignments[0].Path
		if prefix.Last().Type.Kind == ast.KindArray {
			return // envelope form: covered by the well-typedness walker
		}
		var all []ast.Assignment
		for _, p := range produced {
			all = append(all, p.Assignments...)
		}
		for _, f := range st.Struct.Fields {
			found := false
			for _, a := range all {
				if len(a.Path) == len(prefix)+1 && samePathIdents(a.Path[:len(prefix)], prefix) && a.Path[len(prefix)].Identifier == f.Name {
					found = true
					if !sameTypeShape(a.Path[len(prefix)].Type, f.Type) {
						m.violation(rule, "contract/"+rule.kind+"-field-type", fmt.Sprintf("%s: field %s", id, f.Name))
					}
				}
			}
			if !found {
				var got []string
				for _, a := range all {
					got = append(got, a.Path.String())
				}
				m.violation(rule, "contract/"+rule.kind+"-every-field-assigned", fmt.Sprintf("%s: no assignment targets %s.%s (assignments: %v; struct: %s)", id, prefix.String(), f.Name, got, typeSummary(st, 0)))
				return
			}
		}
	case "disjunction_as_options":
		if len(o.Args) == 0 {
			return
		}
		at := o.Args[0].Type
		n := 0
		if at.Kind == ast.KindDisjunction {
			n = len(at.Disjunction.Branches)
		} else if rt, ok := modelResolve(schemas, at); ok && at.Kind == ast.KindRef && rt.Kind == ast.KindStruct && (rt.Hints[ast.HintDisjunctionOfScalars] != nil || rt.Hints[ast.HintDiscriminatedDisjunctionOfRefs] != nil) {
			n = len(rt.Struct.Fields)
		}
		if n == 0 {
			if !unchanged {
				m.violation(rule, "contract/disjunction_as_options-not-applicable-must-not-change", id)
			}
			return
		}
		if len(produced) != n {
			m.violation(rule, "contract/disjunction_as_options-one-option-per-branch", fmt.Sprintf("%s: %d options for %d branches", id, len(produced), n))
			return
		}
		for _, p := range produced {
			if len(p.Assignments) != len(o.Assignments) || !samePathIdents(p.Assignments[0].Path, o.Assignments[0].Path) || p.Assignments[0].Method != o.Assignments[0].Method {
				m.violation(rule, "contract/disjunction_as_options-same-target", fmt.Sprintf("%s: branch option %s assigns %s with method %q, original assigns %s with %q", id, p.Name, p.Assignments[0].Path.String(), p.Assignments[0].Method, o.Assignments[0].Path.String(), o.Assignments[0].Method))
				return
			}
		}
	}
}

// cloneBuilderViaReflect: an independent deep copy that does not rely on cog's DeepCopy.
func cloneBuilderViaReflect(b ast.Builder) ast.Builder {
	var cloneArg func(a ast.Argument) ast.Argument
	cloneArg = func(a ast.Argument) ast.Argument { return ast.Argument{Name: a.Name, Type: cloneType(a.Type)} }
	var clonePath func(p ast.Path) ast.Path
	clonePath = func(p ast.Path) ast.Path {
		if p == nil {
			return nil
		}
		out := make(ast.Path, len(p))
		for i, it := range p {
			n := ast.PathItem{Identifier: it.Identifier, Type: cloneType(it.Type), Root: it.Root}
			if it.Index != nil {
				idx := ast.PathIndex{Constant: it.Index.Constant}
				if it.Index.Argument != nil {
					a := cloneArg(*it.Index.Argument)
					idx.Argument = &a
				}
				n.Index = &idx
			}
			if it.TypeHint != nil {
				h := cloneType(*it.TypeHint)
				n.TypeHint = &h
			}
			out[i] = n
		}
		return out
	}
	var cloneValue func(v ast.AssignmentValue) ast.AssignmentValue
	cloneValue = func(v ast.AssignmentValue) ast.AssignmentValue {
		n := ast.AssignmentValue{Constant: cloneAny(v.Constant)}
		if v.Argument != nil {
			a := cloneArg(*v.Argument)
			n.Argument = &a
		}
		if v.Envelope != nil {
			e := ast.AssignmentEnvelope{Type: cloneType(v.Envelope.Type)}
			for _, ev := range v.Envelope.Values {
				e.Values = append(e.Values, ast.EnvelopeFieldValue{Path: clonePath(ev.Path), Value: cloneValue(ev.Value)})
			}
			n.Envelope = &e
		}
		return n
	}
	cloneAssignments := func(as []ast.Assignment) []ast.Assignment {
		if as == nil {
			return nil
		}
		out := make([]ast.Assignment, len(as))
		for i, a := range as {
			n := ast.Assignment{Path: clonePath(a.Path), Value: cloneValue(a.Value), Method: a.Method}
			for _, c := range a.Constraints {
				n.Constraints = append(n.Constraints, ast.AssignmentConstraint{Argument: cloneArg(c.Argument), Op: c.Op, Parameter: c.Parameter})
			}
			for _, nc := range a.NilChecks {
				n.NilChecks = append(n.NilChecks, ast.AssignmentNilCheck{Path: clonePath(nc.Path), EmptyValueType: cloneType(nc.EmptyValueType)})
			}
			out[i] = n
		}
		return out
	}
	cloneArgs := func(as []ast.Argument) []ast.Argument {
		if as == nil {
			return nil
		}
		out := make([]ast.Argument, len(as))
		for i, a := range as {
			out[i] = cloneArg(a)
		}
		return out
	}
	n := ast.Builder{For: cloneObject(b.For), Package: b.Package, Name: b.Name, VeneerTrail: append([]string(nil), b.VeneerTrail...)}
	for _, p := range b.Properties {
		n.Properties = append(n.Properties, ast.StructField{Name: p.Name, Comments: append([]string(nil), p.Comments...), Type: cloneType(p.Type), Required: p.Required})
	}
	n.Constructor = ast.Constructor{Args: cloneArgs(b.Constructor.Args), Assignments: cloneAssignments(b.Constructor.Assignments)}
	for _, o := range b.Options {
		no := ast.Option{Name: o.Name, Comments: append([]string(nil), o.Comments...), VeneerTrail: append([]string(nil), o.VeneerTrail...), Args: cloneArgs(o.Args), Assignments: cloneAssignments(o.Assignments)}
		if o.Default != nil {
			d := ast.OptionDefault{}
			for _, v := range o.Default.ArgsValues {
				d.ArgsValues = append(d.ArgsValues, cloneAny(v))
			}
			no.Default = &d
		}
		n.Options = append(n.Options, no)
	}
	for _, f := range b.Factories {
		n.Factories = append(n.Factories, f.DeepCopy())
	}
	return n
}

// ---- workload ---------------------------------------------------------------------------

// c17AimSchema: a chain of nested struct references (for merge_into under a deep path), arrays/maps of
// unions (array_to_append → disjunction_as_options), booleans, defaults.
func c17AimSchema(pkg string) *ast.Schema {
	s := ast.NewSchema(pkg, ast.SchemaMeta{})
	s.AddObject(ast.NewObject(pkg, "Leaf", ast.NewStruct(
		ast.NewStructField("alpha", ast.String(), ast.Required()),
		ast.NewStructField("beta", ast.NewScalar(ast.KindInt64, ast.Default(int64(4))), ast.Required()),
		ast.NewStructField("gamma", ast.Bool()),
		// a member whose value the schema fixes: Leaf's builder sets it in its constructor
		ast.NewStructField("kind", ast.String(ast.Value("leaf")), ast.Required()),
	)))
	s.AddObject(ast.NewObject(pkg, "Custom", ast.NewStruct(ast.NewStructField("custom", ast.NewRef(pkg, "Leaf"), ast.Required()))))
	s.AddObject(ast.NewObject(pkg, "Defaults", ast.NewStruct(ast.NewStructField("defaults", ast.NewRef(pkg, "Custom"), ast.Required()))))
	s.AddObject(ast.NewObject(pkg, "Panel", ast.NewStruct(
		ast.NewStructField("title", ast.String(ast.Default("untitled")), ast.Required()),
		ast.NewStructField("subtitle", ast.String(), ast.Required()),
		ast.NewStructField("fieldConfig", ast.NewRef(pkg, "Defaults"), ast.Required()),
		ast.NewStructField("visible", ast.Bool(ast.Default(true)), ast.Required()),
		ast.NewStructField("tags", ast.NewArray(ast.String()), ast.Required()),
		ast.NewStructField("items", ast.NewArray(ast.NewDisjunction([]ast.Type{ast.NewRef(pkg, "Leaf"), ast.NewRef(pkg, "Custom")})), ast.Required()),
		ast.NewStructField("byName", ast.NewMap(ast.String(), ast.NewRef(pkg, "Leaf")), ast.Required()),
		ast.NewStructField("choice", ast.NewDisjunction([]ast.Type{ast.String(), ast.Bool()}), ast.Required()),
		ast.NewStructField("leaf", ast.NewRef(pkg, "Leaf")),
	)))
	return s
}

func genVeneerRules(rng *RNG, builders []ast.Builder, n int) []venRule {
	var rules []venRule
	if len(builders) == 0 {
		return nil
	}
	// aimed sequences on the aimed schema: rules that are meant to be chained on one option
	mkOpt := func(kind, opt, extra string) venRule {
		y := fmt.Sprintf("  - %s: {by_name: Panel.%s%s}\n", kind, opt, extra)
		return venRule{scope: "option", kind: kind, pkg: "aim", object: "Panel", option: opt, params: map[string]string{}, yaml: y, descr: strings.TrimSpace(y)}
	}
	switch rng.Intn(10) {
	case 0:
		rules = append(rules, mkOpt("array_to_append", "items", ""), mkOpt("disjunction_as_options", "items", ""))
	case 1:
		rules = append(rules, mkOpt("map_to_index", "byName", ""), mkOpt("struct_fields_as_arguments", "byName", ""))
	case 2:
		rules = append(rules, mkOpt("disjunction_as_options", "choice", ""), mkOpt("unfold_boolean", "visible", ", true_as: show, false_as: hide"))
	case 3:
		rules = append(rules, mkOpt("struct_fields_as_options", "leaf", ""), mkOpt("array_to_append", "tags", ""))
	case 4:
		// an option produced by unfold_boolean (empty default marker) copied by an option-level duplicate
		dup := mkOpt("duplicate", "show", ", as: display")
		dup.params["as"] = "display"
		rules = append(rules, mkOpt("unfold_boolean", "visible", ", true_as: show, false_as: hide"), dup)
	case 5:
		// a multi-argument option (common rules) promoted to the constructor by a language-specific rule
		y := "  - promote_options_to_constructor: {by_object: Panel, options: [leaf]}\n"
		rules = append(rules, mkOpt("struct_fields_as_arguments", "leaf", ""),
			venRule{scope: "builder", kind: "promote_options_to_constructor", pkg: "aim", object: "Panel", params: map[string]string{}, yaml: y, descr: strings.TrimSpace(y), late: true})
	case 7:
		// an argument feeding two assignments (add_assignment), renamed afterwards by a language-specific rule
		y1 := "  - add_assignment: {by_name: Panel.title, assignment: {path: subtitle, method: direct, value: {argument: {name: title, type: {kind: scalar, scalar: {scalar_kind: string}}}}}}\n"
		y2 := "  - rename_arguments: {by_name: Panel.title, as: [heading]}\n"
		rules = append(rules,
			venRule{scope: "option", kind: "add_assignment", pkg: "aim", object: "Panel", option: "title", params: map[string]string{}, yaml: y1, descr: strings.TrimSpace(y1)},
			venRule{scope: "option", kind: "rename_arguments", pkg: "aim", object: "Panel", option: "title", params: map[string]string{}, yaml: y2, descr: strings.TrimSpace(y2), late: true})
	case 8:
		// an option with one array argument and a second, constant assignment, turned into an append option
		y1 := "  - add_assignment: {by_name: Panel.tags, assignment: {path: subtitle, method: direct, value: {constant: tagged}}}\n"
		rules = append(rules,
			venRule{scope: "option", kind: "add_assignment", pkg: "aim", object: "Panel", option: "tags", params: map[string]string{}, yaml: y1, descr: strings.TrimSpace(y1)},
			mkOpt("array_to_append", "tags", ""))
	case 6:
		// unfold_boolean, then the whole builder duplicated by a language-specific rule
		y := "  - duplicate: {by_object: Panel, as: PanelTwin}\n"
		rules = append(rules, mkOpt("unfold_boolean", "visible", ", true_as: show, false_as: hide"),
			venRule{scope: "builder", kind: "duplicate", pkg: "aim", object: "Panel", params: map[string]string{"as": "PanelTwin"}, yaml: y, descr: strings.TrimSpace(y), late: true})
	}
	for i := 0; i < n; i++ {
		b := pick(rng, builders)
		pkg, obj := b.For.SelfRef.ReferredPkg, b.For.SelfRef.ReferredType
		spelledObj := obj
		if rng.Chance(0.15) {
			spelledObj = flipCase(obj)
		} else if rng.Chance(0.1) {
			spelledObj = "NoSuchObject"
		}
		if rng.Chance(0.35) {
			kind := pick(rng, []string{"omit", "rename", "duplicate", "merge_into"})
			v := venRule{scope: "builder", kind: kind, pkg: pkg, object: spelledObj, params: map[string]string{}}
			switch kind {
			case "omit":
				v.yaml = fmt.Sprintf("  - omit: {by_object: %s}\n", spelledObj)
			case "rename":
				v.params["as"] = fmt.Sprintf("Renamed%d", i)
				v.yaml = fmt.Sprintf("  - rename: {by_object: %s, as: %s}\n", spelledObj, v.params["as"])
			case "duplicate":
				v.params["as"] = fmt.Sprintf("Dup%d", i)
				v.yaml = fmt.Sprintf("  - duplicate: {by_object: %s, as: %s}\n", spelledObj, v.params["as"])
			case "merge_into":
				// destination Panel, source Leaf, under fieldConfig.defaults.custom (aimed schema) when present
				v.object = "Panel"
				v.pkg = "aim"
				v.params["source"] = "Leaf"
				v.params["under_path"] = "fieldConfig.defaults.custom"
				v.yaml = "  - merge_into: {destination: Panel, source: Leaf, under_path: fieldConfig.defaults.custom}\n"
			}
			v.descr = strings.TrimSpace(v.yaml)
			rules = append(rules, v)
			continue
		}
		if len(b.Options) == 0 {
			continue
		}
		o := pick(rng, b.Options)
		optName := o.Name
		if rng.Chance(0.1) {
			optName = flipCase(optName)
		}
		kind := pick(rng, []string{"omit", "rename", "duplicate", "array_to_append", "map_to_index", "unfold_boolean", "struct_fields_as_arguments", "struct_fields_as_options", "disjunction_as_options"})
		v := venRule{scope: "option", kind: kind, pkg: pkg, object: spelledObj, option: optName, params: map[string]string{}}
		sel := fmt.Sprintf("by_name: %s.%s", spelledObj, optName)
		switch kind {
		case "omit":
			v.yaml = fmt.Sprintf("  - omit: {%s}\n", sel)
		case "rename":
			v.params["as"] = fmt.Sprintf("renamedOpt%d", i)
			v.yaml = fmt.Sprintf("  - rename: {%s, as: %s}\n", sel, v.params["as"])
		case "duplicate":
			v.params["as"] = fmt.Sprintf("dupOpt%d", i)
			v.yaml = fmt.Sprintf("  - duplicate: {%s, as: %s}\n", sel, v.params["as"])
		case "unfold_boolean":
			v.yaml = fmt.Sprintf("  - unfold_boolean: {%s, true_as: on%d, false_as: off%d}\n", sel, i, i)
		case "disjunction_as_options":
			v.yaml = fmt.Sprintf("  - disjunction_as_options: {%s}\n", sel)
		default:
			v.yaml = fmt.Sprintf("  - %s: {%s}\n", kind, sel)
		}
		v.descr = strings.TrimSpace(v.yaml)
		rules = append(rules, v)
	}
	return rules
}

func checkC17(r *Run) {
	r.Rule = "builders derived from irgen schemas (+ an aimed schema with a 3-deep chain of struct references, arrays/maps of unions, booleans, defaults) after the go / typescript / python chains; sequences of 1–6 builder and option rules generated as YAML (selectors: exact, case-variant, absent) loaded by yaml.VeneersLoader and applied by the real rewriter; hook-fed monitor after every rule. distinct_nontrivial = distinct (builders, rule sequence) pairs with ≥1 rule event"
	n := r.n(250, 6000)
	dir, _ := os.MkdirTemp(scratchDir(), "c17-")
	defer os.RemoveAll(dir)
	mon := &c17Monitor{r: r}
	for c := 0; c < n; c++ {
		rng := newRNG("C17", r.Seed, c)
		o := defaultIROpts()
		o.Pkgs = 1
		o.MaxObjs = 5
		o.Depth = 2
		o.NestedUnions, o.AliasObjects, o.Intersections = false, false, false
		schemas, _ := genSchemas(rng, o)
		schemas = append(schemas, c17AimSchema("aim"))
		lang := []string{"typescript", "go", "python"}[c%3]
		var processed ast.Schemas
		var err error
		pv, _ := guard(func() { processed, err = newLanguage(lang).CompilerPasses().Process(schemas) })
		if pv != nil || err != nil {
			r.Count("chains_failed(C04's business)", 1)
			continue
		}
		var builders []ast.Builder
		if pv, _ := guard(func() { builders = (&ast.BuilderGenerator{}).FromAST(processed) }); pv != nil {
			continue
		}
		rules := genVeneerRules(rng, builders, rng.Range(1, 6))
		// one file per package, builder rules then option rules (the order the rewriter uses)
		byPkg := map[string][]venRule{}
		for _, v := range rules {
			byPkg[v.pkg] = append(byPkg[v.pkg], v)
		}
		sub := filepath.Join(dir, fmt.Sprintf("v%d", c))
		_ = os.MkdirAll(sub, 0o755)
		var files []string
		mon.bRules, mon.oRules = nil, nil
		var allYAML strings.Builder
		mon.bCount, mon.oCount = 0, 0
		// rewriter order: `language: all` builder rules of all files (file order), then their option rules,
		// then the same for the language-specific files
		for _, late := range []bool{false, true} {
			for _, pkg := range sortedKeys(byPkg) {
				var sb strings.Builder
				langName := "all"
				if late {
					langName = lang
				}
				fmt.Fprintf(&sb, "language: %s\npackage: %s\n", langName, pkg)
				n := 0
				sb.WriteString("builders:\n")
				for _, v := range byPkg[pkg] {
					if v.scope == "builder" && v.late == late {
						sb.WriteString(v.yaml)
						n++
					}
				}
				sb.WriteString("options:\n")
				for _, v := range byPkg[pkg] {
					if v.scope == "option" && v.late == late {
						sb.WriteString(v.yaml)
						n++
					}
				}
				if n == 0 && late {
					continue
				}
				f := filepath.Join(sub, fmt.Sprintf("%s-%s.yaml", pkg, langName))
				_ = os.WriteFile(f, []byte(sb.String()), 0o644)
				files = append(files, f)
				allYAML.WriteString(sb.String())
			}
			for _, pkg := range sortedKeys(byPkg) {
				for _, v := range byPkg[pkg] {
					if v.scope == "builder" && v.late == late {
						mon.bRules = append(mon.bRules, v)
					}
				}
			}
			for _, pkg := range sortedKeys(byPkg) {
				for _, v := range byPkg[pkg] {
					if v.scope == "option" && v.late == late {
						mon.oRules = append(mon.oRules, v)
					}
				}
			}
		}
		rewriter, err := cogyaml.NewVeneersLoader().RewriterFrom(files, rewrite.Config{})
		if err != nil {
			r.CaseInconclusive("generated veneers rejected: " + err.Error())
			continue
		}
		mon.ctx = fmt.Sprintf("case %d, %s chain", c, lang)
		mon.replay = map[string]any{"veneers": allYAML.String(), "language": lang, "input_ir": mustJSON(schemas)}
		evBefore := mon.events
		withSink(mon.sink, func() {
			guard(func() { _, _ = rewriter.ApplyTo(processed, builders, lang) })
		})
		r.Eval()
		if mon.events > evBefore {
			r.Distinct(allYAML.String() + fmt.Sprint(c))
		}
		for _, v := range rules {
			r.Count("rule/"+v.scope+"."+v.kind, 1)
		}
		if c < 2 {
			r.Sample(map[string]any{"language": lang, "veneers": allYAML.String()})
		}
	}
	checkC17Compose(r)
	r.Count("hook.rule_events", mon.events)
	if mon.events == 0 {
		r.Inconclusive("veneer hooks never fired")
	}
}
