package main

import (
	"fmt"
	"os"
	"path/filepath"
	"strings"
)

// C11 — generated Python types round-trip documents and agree with Go on the wire format.

func init() { register("C11", checkC11) }

func checkC11(r *Run) {
	n := r.n(12, 200)
	r.Rule = "same corpus construction as C01 with Go and Python outputs; every accepted document goes through Python from_json → to_json (generated encoder) and through the Go decoder/encoder; three-way comparison (document, Python, Go) with exact decimals and optional null≡absent. distinct_nontrivial = distinct (schema, object, document) triples executed in Python"
	c := buildCorpus(r, corpusOpts{N: n, Formats: []string{"jsonschema", "openapi", "cue"}, Profile: "general", Langs: []string{"go", "python"}, DocsPerObj: r.n(8, 14), Tag: "c11",
		GoFlags: map[string]any{"generate_equal": false, "generate_validate": false}})
	defer c.cleanup()
	goErr := c.buildGoDriver()
	if goErr != nil {
		r.CaseInconclusive("go driver: " + goErr.Error())
	}
	if err := c.buildPyTree(); err != nil {
		r.Inconclusive("python tree: " + err.Error())
		return
	}
	type meta struct {
		cs  *corpusSchema
		obj *amObject
	}
	var reqs []drvReq
	metas := map[string]meta{}
	for _, cs := range c.Schemas {
		if !cs.PyOK {
			continue
		}
		for _, on := range sortedObjNames(cs.Docs) {
			obj := cs.AM.obj(on)
			if obj.T.K != "struct" {
				continue
			}
			for i, d := range cs.Docs[on] {
				id := fmt.Sprintf("%s.%s#%d", cs.ID, on, i)
				reqs = append(reqs, drvReq{ID: id, Op: "roundtrip", Type: cs.ID + "." + on, Doc: d.JSON()})
				metas[id] = meta{cs, obj}
			}
		}
	}
	xreqs, xdocs := c11CrossPackage(r, c)
	reqs = append(reqs, xreqs...)
	pyResps, err := c.runPy(reqs)
	if err != nil {
		r.Inconclusive("python driver run: " + err.Error())
	}
	var goReqs []drvReq
	for _, q := range reqs {
		m, isAM := metas[q.ID]
		if isAM && goErr == nil && m.cs.GoOK && m.cs.GoTypes[m.obj.Name] {
			goReqs = append(goReqs, q)
		}
	}
	goResps := map[string]drvResp{}
	if len(goReqs) > 0 {
		goResps, _ = c.runGo(goReqs)
	}
	importFailed := map[string]bool{}
	for _, q := range reqs {
		if doc, isX := xdocs[q.ID]; isX {
			c11JudgeCross(r, q, doc, pyResps)
			continue
		}
		m := metas[q.ID]
		resp, ok := pyResps[q.ID]
		if !ok {
			r.CaseInconclusive("no python response for " + q.ID)
			continue
		}
		replay := map[string]any{"format": m.cs.Format, "object": m.obj.Name, "document": string(q.Doc), "schema": string(m.cs.SchemaText)}
		if strings.HasPrefix(resp.Panic, "import:") {
			if !importFailed[m.cs.ID] {
				importFailed[m.cs.ID] = true
				r.CaseInconclusive("generated Python of " + m.cs.ID + " does not import (C02's business): " + firstLine(resp.Panic))
				r.Count("python_packages_not_importing", 1)
			}
			continue
		}
		r.Eval()
		r.Distinct(q.ID + string(q.Doc))
		r.Count("events.python_roundtrip", 1)
		orig, _ := parseJSONNum(q.Doc)
		if resp.Panic != "" {
			stage := strings.SplitN(resp.Panic, ":", 2)[0]
			r.Violation("python-exception/"+stage+"/"+pyErrClass(m.cs.AM, m.obj.T, orig, resp.Panic), fmt.Sprintf("%s on accepted document %s of %s (%s)", resp.Panic, q.Doc, m.obj.Name, m.cs.Format), replay)
			continue
		}
		got, perr := parseJSONNum(resp.Out)
		if perr != nil {
			r.Violation("python-output-not-json", string(resp.Out), replay)
			continue
		}
		if d := jsonDiff(orig, got, jsonCmpOpts{NullEqualsAbsent: true}, ""); d != "" {
			p := d[:strings.Index(d, ":")]
			tag := strings.NewReplacer("+bounds", "").Replace(tagAtPath(m.cs.AM, m.obj.T, p))
			hasDefault := strings.Contains(tag, "+default") || strings.HasPrefix(tag, "const")
			switch {
			case strings.Contains(d, ": absent vs") && hasDefault && strings.Contains(tag, "/optional"):
				r.Violation("python-roundtrip-diff/absent-optional-field-filled-with-its-default", fmt.Sprintf("document %s comes back from Python as %s — differs at %s", q.Doc, resp.Out, d), replay)
				continue
			case strings.Contains(d, ": null vs") && hasDefault:
				r.Violation("python-roundtrip-diff/explicit-null-replaced-by-default", fmt.Sprintf("document %s comes back from Python as %s — differs at %s", q.Doc, resp.Out, d), replay)
				continue
			}
			r.Violation("python-roundtrip-diff/"+tag+"/"+diffKind(d), fmt.Sprintf("document %s comes back from Python as %s — differs at %s", q.Doc, resp.Out, d), replay)
			continue
		}
		// only *optional* properties given as null may be omitted
		var dropped []string
		droppedNulls(orig, got, "", &dropped)
		flagged := false
		for _, p := range dropped {
			if tag := strings.NewReplacer("+bounds", "").Replace(tagAtPath(m.cs.AM, m.obj.T, p)); strings.Contains(tag, "/required") {
				r.Violation("python-roundtrip-diff/null-of-required-member-dropped/"+tag, fmt.Sprintf("document %s comes back from Python as %s — the required member %s, given as null, is gone", q.Doc, resp.Out, p), replay)
				flagged = true
				break
			}
		}
		if flagged {
			continue
		}
		// wire agreement with Go
		if g, ok := goResps[q.ID]; ok && g.DecodeErr == "" && g.Panic == "" && g.Out != nil {
			gj, _ := parseJSONNum(g.Out)
			if d := jsonDiff(gj, got, jsonCmpOpts{NullEqualsAbsent: true}, ""); d != "" {
				// differences that are Go's own (C01 findings) are not Python's
				if jsonDiff(orig, gj, jsonCmpOpts{NullEqualsAbsent: true}, "") != "" {
					r.Count("go_side_already_differs(C01's business)", 1)
				} else {
					p := d[:strings.Index(d, ":")]
					r.Violation("go-python-disagree/"+tagAtPath(m.cs.AM, m.obj.T, p)+"/"+diffKind(d), fmt.Sprintf("Go encodes %s as %s, Python as %s — differs at %s", q.Doc, g.Out, resp.Out, d), replay)
				}
			}
			r.Count("events.go_python_compared", 1)
		}
		if len(r.samples) < 3 {
			r.Sample(map[string]any{"format": m.cs.Format, "object": m.obj.Name, "document": string(q.Doc), "python": string(resp.Out)})
		}
	}
}

// pyErrClass: exception type + the tag of the first null / interesting member when recognisable.
func pyErrClass(s *amSchema, root *amType, doc any, msg string) string {
	parts := strings.SplitN(msg, ":", 3)
	exc := ""
	if len(parts) > 1 {
		exc = strings.TrimSpace(parts[1])
	}
	detail := ""
	if len(parts) > 2 {
		detail = maskMsg(strings.TrimSpace(parts[2]))
	}
	if strings.Contains(msg, "NoneType") {
		return "explicit-null-for-nullable-composite(" + exc + ")"
	}
	return exc + "/" + detail
}

// ---- cross-package workload -----------------------------------------------------------------
// Two CUE packages; `panel` imports `common`; both define a struct and an enum of the same name, and
// panel.#Panel uses both. Documents are written by hand (valid by construction).

const c11CommonCUE = `package common

#Options: {
	b:     int64
	note?: string
}

#Unit: "ms" | "s"
`

const c11PanelCUE = `package panel

import "example.com/lib/common"

#Options: {
	a: string
}

#Unit: "px" | "em"

// an alias, in this package, of a struct that lives in the other one
#SharedAlias: common.#Options

#Panel: {
	aliased?: #SharedAlias
	aliases?: [...#SharedAlias]
	opts:    #Options
	shared:  common.#Options
	unit?:   #Unit
	cunit?:  common.#Unit
	more?: [...common.#Options]
	mine?: [...#Options]
	byKey?: {[string]: common.#Options}
}
`

func c11CrossPackage(r *Run, c *corpus) ([]drvReq, map[string]string) {
	sid := "x0001"
	in := filepath.Join(c.dir, "in", sid)
	_ = os.MkdirAll(filepath.Join(in, "common"), 0o755)
	_ = os.MkdirAll(filepath.Join(in, "panel"), 0o755)
	_ = os.WriteFile(filepath.Join(in, "common", "common.cue"), []byte(c11CommonCUE), 0o644)
	_ = os.WriteFile(filepath.Join(in, "panel", "panel.cue"), []byte(c11PanelCUE), 0o644)
	outRoot := filepath.Join(c.dir, "out", sid)
	yaml := fmt.Sprintf("inputs:\n  - cue:\n      entrypoint: %s\n      package: common\n  - cue:\n      entrypoint: %s\n      package: panel\n      cue_imports: ['%s:example.com/lib/common']\noutput:\n  directory: %s\n  types: true\n  builders: false\n  languages:\n    - python: {generate_json_marshaller: true}\n",
		yq(filepath.Join(in, "common")), yq(filepath.Join(in, "panel")), filepath.Join(in, "common"), yq(filepath.Join(outRoot, "%l")))
	res := runPipelineYAML(in, "pipeline.yaml", yaml, outRoot)
	if res.Err != nil || res.Panic != nil {
		r.CaseInconclusive(fmt.Sprintf("cross-package workload: pipeline failed: %v %v", res.Err, res.Panic))
		return nil, nil
	}
	if err := res.Files.under("python").writeTo(filepath.Join(c.dir, "pyroot", sid)); err != nil {
		r.CaseInconclusive("cross-package workload: " + err.Error())
		return nil, nil
	}
	docs := []string{
		`{"opts":{"a":"x"},"shared":{"b":3,"note":"n"}}`,
		`{"opts":{"a":""},"shared":{"b":0},"unit":"em","cunit":"s"}`,
		`{"opts":{"a":"y"},"shared":{"b":7},"more":[{"b":1},{"b":2,"note":"z"}],"mine":[{"a":"p"},{"a":"q"}]}`,
		`{"opts":{"a":"y"},"shared":{"b":-1,"note":""},"byKey":{"k1":{"b":5},"k2":{"b":6,"note":"w"}},"unit":"px","cunit":"ms"}`,
		`{"opts":{"a":"z"},"shared":{"b":1},"aliased":{"b":4,"note":"through an alias"},"aliases":[{"b":8},{"b":9,"note":"n"}]}`,
	}
	var reqs []drvReq
	xdocs := map[string]string{}
	for i, d := range docs {
		id := fmt.Sprintf("%s/panel.Panel#%d", sid, i)
		reqs = append(reqs, drvReq{ID: id, Op: "roundtrip", Type: sid + "/panel.Panel", Doc: []byte(d)})
		xdocs[id] = d
	}
	r.Count("cross_package_documents", len(docs))
	return reqs, xdocs
}

func c11JudgeCross(r *Run, q drvReq, doc string, resps map[string]drvResp) {
	resp, ok := resps[q.ID]
	if !ok {
		r.CaseInconclusive("no python response for " + q.ID)
		return
	}
	r.Eval()
	r.Distinct(q.ID)
	r.Count("events.python_roundtrip_cross_package", 1)
	replay := map[string]any{"workload": "cross-package", "common.cue": c11CommonCUE, "panel.cue": c11PanelCUE, "document": doc}
	if resp.Panic != "" {
		r.Violation("python-exception/cross-package/"+maskMsg(truncate(resp.Panic, 80)), fmt.Sprintf("%s on document %s (packages common + panel)", resp.Panic, doc), replay)
		return
	}
	orig, _ := parseJSONNum([]byte(doc))
	got, err := parseJSONNum(resp.Out)
	if err != nil {
		r.Violation("python-output-not-json", string(resp.Out), replay)
		return
	}
	if d := jsonDiff(orig, got, jsonCmpOpts{NullEqualsAbsent: true}, ""); d != "" {
		r.Violation("python-roundtrip-diff/cross-package/"+maskMsg(strings.SplitN(d, ":", 2)[0]), fmt.Sprintf("document %s comes back from Python as %s — differs at %s", doc, resp.Out, d), replay)
	}
}

// droppedNulls lists the paths of object members that hold null in a and are absent from b.
func droppedNulls(a, b any, path string, out *[]string) {
	switch x := a.(type) {
	case []any:
		if y, ok := b.([]any); ok && len(x) == len(y) {
			for i := range x {
				droppedNulls(x[i], y[i], fmt.Sprintf("%s[%d]", path, i), out)
			}
		}
	case map[string]any:
		y, ok := b.(map[string]any)
		if !ok {
			return
		}
		for _, k := range sortedKeys(x) {
			yv, present := y[k]
			if x[k] == nil && !present {
				*out = append(*out, path+"."+k)
				continue
			}
			if present {
				droppedNulls(x[k], yv, path+"."+k, out)
			}
		}
	}
}
