package main

import (
	"encoding/json"
	"fmt"
	"os"
	"regexp"
	"strings"
)

// C01 — documents the source schema accepts load into the generated Go types and round-trip.

func init() { register("C01", checkC01) }

// typeTag describes an AM type for finding keys.
func typeTag(s *amSchema, t *amType) string {
	if t == nil {
		return "?"
	}
	tag := t.K
	switch t.K {
	case "int", "float":
		if t.Width != "" {
			tag += ":" + t.Width
		}
		if t.Lo != nil || t.Hi != nil {
			tag += "+bounds"
		}
	case "ref":
		rt := s.resolve(t)
		if rt != nil && rt != t {
			tag = "ref>" + rt.K
			if rt.K == "union" && rt.Disc != "" {
				tag = "ref>disc-union"
			}
		}
	case "union":
		if t.Disc != "" {
			tag = "disc-union"
		} else {
			var ks []string
			for _, b := range t.Branches {
				ks = append(ks, b.K)
			}
			tag = "union(" + strings.Join(ks, "|") + ")"
		}
	case "array", "map":
		tag += "<" + typeTag(s, t.Elem) + ">"
	case "enum":
		if t.EnumI != nil {
			tag = "enum:int"
		}
	case "const":
		tag = fmt.Sprintf("const:%T", t.Const)
	}
	if t.Nullable {
		tag += "+nullable"
	}
	if t.Default != nil {
		tag += "+default"
	}
	return tag
}

var pathStepRe = regexp.MustCompile(`\.([A-Za-z0-9_]+)|\[(\d+)\]`)

// tagAtPath walks a jsonDiff path (".a.b[0].c") through the AM and returns the tag of the deepest
// type reached plus whether the last field is required.
func tagAtPath(s *amSchema, root *amType, path string) string {
	cur := root
	req := ""
	for _, m := range pathStepRe.FindAllStringSubmatch(path, -1) {
		rt := s.resolve(cur)
		if rt == nil {
			break
		}
		if rt.K == "union" && rt.Disc != "" && m[1] != "" {
			// find the field in any branch
			found := false
			for _, b := range rt.Branches {
				bt := s.resolve(b)
				if bt == nil {
					continue
				}
				for _, f := range bt.Fields {
					if f.Name == m[1] {
						cur = f.T
						req = reqTag(f)
						found = true
					}
				}
			}
			if found {
				continue
			}
			break
		}
		switch {
		case m[1] != "" && rt.K == "struct":
			var nf *amField
			for _, f := range rt.Fields {
				if f.Name == m[1] {
					nf = f
				}
			}
			if nf == nil {
				return typeTag(s, cur) + "/unknown-field"
			}
			cur = nf.T
			req = reqTag(nf)
		case m[1] != "" && rt.K == "map":
			cur = rt.Elem
			req = ""
		case m[2] != "" && rt.K == "array":
			cur = rt.Elem
			req = ""
		default:
			return typeTag(s, cur) + req
		}
	}
	return typeTag(s, cur) + req
}

func reqTag(f *amField) string {
	if f.Required {
		return "/required"
	}
	return "/optional"
}

var goFieldRe = regexp.MustCompile(`Go struct field (\w+)\.([\w.]+) of type ([\w.\[\]\*]+)`)
var digitsRe = regexp.MustCompile(`[0-9]+`)
var quotedRe = regexp.MustCompile(`"[^"]*"|'[^']*'`)

func maskMsg(msg string) string {
	msg = quotedRe.ReplaceAllString(msg, "«s»")
	msg = digitsRe.ReplaceAllString(msg, "N")
	if i := strings.Index(msg, "\n"); i >= 0 {
		msg = msg[:i]
	}
	if len(msg) > 90 {
		msg = msg[:90]
	}
	return msg
}

func errClass(s *amSchema, root *amType, msg string) string {
	if m := goFieldRe.FindStringSubmatch(msg); m != nil {
		parts := strings.Split(m[2], ".")
		return "field<" + tagAtPath(s, root, "."+strings.Join(parts, ".")) + ">:" + maskMsg(strings.Replace(msg, m[0], "", 1))
	}
	return maskMsg(msg)
}

func pipelineErrClass(err error) string {
	msg := err.Error()
	// keep the tail (the innermost cause)
	if i := strings.LastIndex(msg, ": "); i >= 0 && len(msg)-i < 120 {
		msg = msg[i+2:]
	}
	return maskMsg(msg)
}

func checkC01(r *Run) {
	n := r.n(14, 220)
	r.Rule = "AM schemas (grammar of the property) rendered as JSON Schema / OpenAPI / CUE → real pipeline (YAML) with Go types, json marshaller and strict unmarshaller → compiled driver; documents = boundary/variant documents derived from the AM and accepted by the format's own reference validator. distinct_nontrivial = distinct (schema, object, document) triples executed whose document has at least one member"
	c := buildCorpus(r, corpusOpts{N: n, Formats: []string{"jsonschema", "openapi", "cue"}, Profile: "general", Langs: []string{"go"}, DocsPerObj: r.n(10, 16), Tag: "c01",
		// C01 is about the decoders: Equals/Validate generation is left to C13/C08 (and C02 for whether it compiles)
		GoFlags: map[string]any{"generate_equal": false, "generate_validate": false}})
	defer c.cleanup()
	c01Judge(r, c, true)
}

// c01Judge runs the round-trip events of a corpus and applies the C01 oracle.
func c01Judge(r *Run, c *corpus, reportPipeline bool) {
	for _, cs := range c.Schemas {
		if cs.GenPanic != nil {
			r.Violation("pipeline-panic/"+cs.Format+"/"+panicClass(cs.GenPanic)+"@"+topCogFrame(cs.GenStack), fmt.Sprint(cs.GenPanic), map[string]any{"format": cs.Format, "schema": string(cs.SchemaText)})
			continue
		}
		if cs.GenErr != nil && cs.Validator != nil && reportPipeline {
			r.Violation("pipeline-error/"+cs.Format+"/"+pipelineErrClass(cs.GenErr), "a schema inside the supported grammar (accepted by the reference validator) makes the run fail: "+cs.GenErr.Error(), map[string]any{"format": cs.Format, "schema": string(cs.SchemaText)})
		}
	}
	if err := c.buildGoDriver(); err != nil {
		r.Inconclusive("go driver: " + err.Error())
		return
	}
	for sid, d := range c.BrokenGo {
		r.CaseInconclusive("generated Go of " + sid + " does not compile (C02's business): " + d)
		r.Count("go_packages_not_compiling", 1)
	}
	var reqs []drvReq
	type meta struct {
		cs  *corpusSchema
		obj *amObject
		doc amDoc
	}
	metas := map[string]meta{}
	for _, cs := range c.Schemas {
		if !cs.GoOK {
			continue
		}
		for _, on := range sortedObjNames(cs.Docs) {
			if !cs.GoTypes[on] {
				continue
			}
			for i, d := range cs.Docs[on] {
				id := fmt.Sprintf("%s.%s#%d", cs.ID, on, i)
				reqs = append(reqs, drvReq{ID: id, Op: "roundtrip", Type: cs.ID + "." + on, Doc: d.JSON()})
				metas[id] = meta{cs, cs.AM.obj(on), d}
			}
		}
	}
	resps, err := c.runGo(reqs)
	if err != nil {
		r.Inconclusive("go driver run: " + err.Error())
	}
	for _, q := range reqs {
		m := metas[q.ID]
		resp, ok := resps[q.ID]
		if !ok {
			r.CaseInconclusive("no driver response for " + q.ID)
			continue
		}
		r.Eval()
		r.Count("events.roundtrip", 1)
		if os.Getenv("VERIF_DEBUG") == m.obj.Name && m.obj.Name != "" {
			fmt.Printf("DEBUG %s %s doc=%s\n   out=%s strictErr=%q decodeErr=%q\n", m.cs.Format, m.obj.Name, truncate(string(q.Doc), 300), truncate(string(resp.Out), 300)+"\n   resp="+truncate(string(mustJSONBytes(resp)), 900), resp.StrictErr, resp.DecodeErr)
		}
		if string(q.Doc) != "{}" {
			r.Distinct(m.cs.ID + m.obj.Name + string(q.Doc))
		}
		replay := map[string]any{"format": m.cs.Format, "object": m.obj.Name, "document": string(q.Doc), "schema": string(m.cs.SchemaText)}
		fk := m.cs.Format
		if resp.Panic != "" {
			r.Violation("generated-code-panic/"+maskMsg(resp.Panic), fmt.Sprintf("%s on document %s of %s (%s)", resp.Panic, q.Doc, m.obj.Name, fk), replay)
			continue
		}
		if resp.DecodeErr != "" {
			r.Violation("decode-error/"+errClass(m.cs.AM, m.obj.T, resp.DecodeErr), fmt.Sprintf("json.Unmarshal of accepted document %s into %s fails: %s", q.Doc, m.obj.Name, resp.DecodeErr), replay)
			continue
		}
		if resp.StrictErr != "" {
			cls := strictErrClass(m.cs.AM, m.obj.T, resp.StrictErr)
			if pm := strictPathRe.FindStringSubmatch(firstLine(resp.StrictErr)); pm != nil && belowNullElement(q.Doc, "."+pm[1]) {
				// root cause: a null element of a collection of nullable references is decoded as an empty object
				cls = "null-element-of-collection-decoded-as-empty-object"
			}
			r.Violation("strict-error/"+cls, fmt.Sprintf("UnmarshalJSONStrict of accepted document %s into %s fails: %s", q.Doc, m.obj.Name, resp.StrictErr), replay)
		}
		if resp.MarshalErr != "" {
			r.Violation("marshal-error/"+fk+"/"+maskMsg(resp.MarshalErr), resp.MarshalErr, replay)
			continue
		}
		orig, _ := parseJSONNum(q.Doc)
		for which, out := range map[string]json.RawMessage{"std": resp.Out, "strict": resp.StrictOut} {
			if out == nil {
				continue
			}
			got, perr := parseJSONNum(out)
			if perr != nil {
				r.Violation("reencoded-not-json/"+fk, string(out), replay)
				continue
			}
			if d := jsonDiff(orig, got, jsonCmpOpts{NullEqualsAbsent: true}, ""); d != "" {
				p := d[:strings.Index(d, ":")]
				if cls := collectionDiffClass(d); cls != "" {
					// format- and element-type-independent classes (one defect each)
					r.Violation("roundtrip-diff/"+cls, fmt.Sprintf("document %s re-encodes (%s decoder) as %s — differs at %s", q.Doc, which, out, d), replay)
					continue
				}
				tag := strings.NewReplacer("+default", "", "+bounds", "").Replace(tagAtPath(m.cs.AM, m.obj.T, p))
				if strings.Contains(tag, "array<int:uint8") {
					r.Violation("roundtrip-diff/uint8-array-encoded-as-base64", fmt.Sprintf("document %s re-encodes (%s decoder) as %s — differs at %s", q.Doc, which, out, d), replay)
					continue
				}
				r.Violation("roundtrip-diff/"+fk+"/"+which+"/"+tag+"/"+diffKind(d), fmt.Sprintf("document %s re-encodes (%s decoder) as %s — differs at %s", q.Doc, which, out, d), replay)
				continue
			}
			if which == "std" {
				if verr := m.cs.Validator.Validate(m.obj.Name, out); verr != nil {
					r.Violation("reencoded-rejected/"+fk+"/"+maskMsg(verr.Error()), fmt.Sprintf("re-encoding %s of %s is rejected by the source schema: %v", out, q.Doc, verr), replay)
				}
			}
		}
		if len(r.samples) < 3 {
			r.Sample(map[string]any{"format": m.cs.Format, "object": m.obj.Name, "document": string(q.Doc), "reencoded": string(resp.Out)})
		}
	}
}

// collectionDiffClass recognises the two collection-related re-encoding differences.
func collectionDiffClass(d string) string {
	switch {
	case strings.HasSuffix(d, ": [] vs absent"):
		return "optional-empty-array-omitted"
	case strings.HasSuffix(d, ": {} vs absent"):
		return "optional-empty-map-omitted"
	case strings.HasSuffix(d, ": [] vs null"):
		return "empty-array-becomes-null"
	case strings.HasSuffix(d, ": {} vs null"):
		return "empty-map-becomes-null"
	}
	return ""
}

func diffKind(d string) string {
	switch {
	case strings.Contains(d, "absent vs"):
		return "extra"
	case strings.Contains(d, "vs absent"):
		return "missing"
	case strings.Contains(d, "array length"):
		return "length"
	}
	return "changed"
}

var strictPathRe = regexp.MustCompile(`^([\w.\[\]]+): (.*)$`)

func strictErrClass(s *amSchema, root *amType, msg string) string {
	if strings.Contains(msg, "unexpected end of JSON input") {
		return "unexpected end of JSON input"
	}
	first := msg
	if i := strings.Index(msg, "\n"); i >= 0 {
		first = msg[:i]
	}
	if m := strictPathRe.FindStringSubmatch(first); m != nil {
		p := "." + m[1]
		return "field<" + tagAtPath(s, root, p) + ">:" + maskMsg(m[2])
	}
	return errClass(s, root, first)
}

// belowNullElement: does the document hold null at some proper prefix of the path (a.b[1].c, a[key].c)?
func belowNullElement(raw []byte, path string) bool {
	doc, err := parseJSONNum(raw)
	if err != nil {
		return false
	}
	cur := doc
	steps := belowStepRe.FindAllStringSubmatch(path, -1)
	for i, st := range steps {
		if i == len(steps)-1 {
			return false
		}
		var next any
		var has bool
		switch c := cur.(type) {
		case map[string]any:
			key := st[1]
			if key == "" {
				key = st[2]
			}
			next, has = c[key]
		case []any:
			var idx int
			if _, err := fmt.Sscanf(st[2], "%d", &idx); err == nil && idx < len(c) {
				next, has = c[idx], true
			}
		}
		if !has {
			return false
		}
		if next == nil {
			return true
		}
		cur = next
	}
	return false
}

var belowStepRe = regexp.MustCompile(`\.?([A-Za-z0-9_]+)|\[([^\]]+)\]`)

// hasNullCollectionElement: some array or map in the document holds a null element.
func hasNullCollectionElement(v any, inColl bool) bool {
	switch x := v.(type) {
	case nil:
		return inColl
	case []any:
		for _, e := range x {
			if hasNullCollectionElement(e, true) {
				return true
			}
		}
	case map[string]any:
		for k, e := range x {
			if e == nil && docgenMapKeyRe.MatchString(k) {
				return true // docgen names map keys key0, key1, …
			}
			if e != nil && hasNullCollectionElement(e, false) {
				return true
			}
		}
	}
	return false
}

var docgenMapKeyRe = regexp.MustCompile(`^(key|k)\d+$`)
