package main

import (
	"path/filepath"
	"os"
	"fmt"
	"strings"

	"github.com/grafana/cog/internal/ast"
)

// C16 — builders are derived completely and type-correctly from the schemas.
// Reference derivation (written from the property statement, not from cog's code) compared with the
// builders captured at the `builders.derived` hook / returned by BuilderGenerator.FromAST.

func init() { register("C16", checkC16) }

// modelResolve follows references across packages until a non-reference type (or a dangling one).
func modelResolve(schemas ast.Schemas, t ast.Type) (ast.Type, bool) {
	for i := 0; i < 50; i++ {
		if t.Kind != ast.KindRef || t.Ref == nil {
			return t, true
		}
		found := false
		for _, s := range schemas {
			if s.Package == t.Ref.ReferredPkg && s.Objects.Has(t.Ref.ReferredType) {
				t = s.Objects.Get(t.Ref.ReferredType).Type
				found = true
				break
			}
		}
		if !found {
			return t, false
		}
	}
	return t, false
}

type modelOption struct {
	name        string
	argType     string // canon of the argument type
	pathType    string
	constraints []string
	hasDefault  bool
	dflt        string
	comments    string
}

type modelBuilder struct {
	pkg, name  string
	forObj     string
	constants  map[string]string // field → canon(value)
	constOrder []string
	options    []modelOption
}

func modelBuilders(schemas ast.Schemas) []modelBuilder {
	var out []modelBuilder
	for _, s := range schemas {
		s.Objects.Iterate(func(_ string, o ast.Object) {
			rt, ok := modelResolve(schemas, o.Type)
			if !ok || rt.Kind != ast.KindStruct || rt.Struct == nil {
				return
			}
			mb := modelBuilder{pkg: s.Package, name: o.Name, forObj: o.SelfRef.String(), constants: map[string]string{}}
			for _, f := range rt.Struct.Fields {
				// value fixed by the schema: inline constant
				if f.Type.Kind == ast.KindScalar && f.Type.Scalar != nil && f.Type.Scalar.Value != nil {
					mb.constants[f.Name] = canon(f.Type.Scalar.Value)
					mb.constOrder = append(mb.constOrder, f.Name)
					continue
				}
				// value fixed by the schema: mandatory reference to a constant
				if f.Type.Kind == ast.KindRef && f.Required && !f.Type.Nullable {
					if ft, ok := modelResolve(schemas, f.Type); ok && ft.Kind == ast.KindScalar && ft.Scalar != nil && ft.Scalar.Value != nil {
						mb.constants[f.Name] = canon(ft.Scalar.Value)
						mb.constOrder = append(mb.constOrder, f.Name)
						continue
					}
				}
				// value fixed by the referenced type's own constructor
				if f.Type.Kind == ast.KindConstantRef {
					continue
				}
				mo := modelOption{name: f.Name, argType: canon(f.Type), pathType: canon(f.Type), comments: canon(f.Comments)}
				if f.Type.Kind == ast.KindScalar && f.Type.Scalar != nil {
					for _, c := range f.Type.Scalar.Constraints {
						var p any
						if len(c.Args) > 0 {
							p = c.Args[0]
						}
						mo.constraints = append(mo.constraints, fmt.Sprintf("%s %s", c.Op, canon(p)))
					}
				}
				if f.Type.Default != nil {
					mo.hasDefault = true
					mo.dflt = canon(f.Type.Default)
				}
				mb.options = append(mb.options, mo)
			}
			out = append(out, mb)
		})
	}
	return out
}

// compareBuilders returns (class, detail) for the first disagreement.
func compareBuilders(schemas ast.Schemas, got []ast.Builder) (string, string) {
	want := modelBuilders(schemas)
	if len(got) != len(want) {
		gotNames := make([]string, len(got))
		for i, b := range got {
			gotNames[i] = b.Package + "." + b.Name
		}
		wantNames := make([]string, len(want))
		for i, b := range want {
			wantNames[i] = b.pkg + "." + b.name
		}
		return "builder-set", fmt.Sprintf("builders %v, expected (objects resolving to structs) %v", gotNames, wantNames)
	}
	for i, w := range want {
		b := got[i]
		id := w.pkg + "." + w.name
		if b.Package != w.pkg || b.Name != w.name || b.For.SelfRef.String() != w.forObj {
			return "builder-identity", fmt.Sprintf("builder #%d is %s.%s for %s, expected %s for %s", i, b.Package, b.Name, b.For.SelfRef.String(), id, w.forObj)
		}
		if len(b.Constructor.Args) != 0 {
			return "constructor-args", id + ": freshly derived builders take no constructor argument"
		}
		// constants
		gotConst := map[string]string{}
		for _, a := range b.Constructor.Assignments {
			if len(a.Path) != 1 {
				return "constant-path", id + ": constructor assignment with a path of length != 1"
			}
			if a.Value.Argument != nil || a.Value.Envelope != nil {
				return "constant-kind", id + ": constructor assignment is not a constant"
			}
			if _, dup := gotConst[a.Path[0].Identifier]; dup {
				return "field-covered-twice", id + ": field " + a.Path[0].Identifier + " has two constructor assignments"
			}
			gotConst[a.Path[0].Identifier] = canon(a.Value.Constant)
		}
		for f, v := range w.constants {
			gv, ok := gotConst[f]
			if !ok {
				// is it exposed as an option instead?
				for _, o := range b.Options {
					if o.Name == f {
						return "fixed-value-field-exposed-as-option", fmt.Sprintf("%s: field %s has a value fixed by the schema (%s) but is an option, not a constructor constant", id, f, v)
					}
				}
				return "constant-missing", fmt.Sprintf("%s: field %s (fixed value %s) is covered by nothing", id, f, v)
			}
			if gv != v {
				return "constant-value", fmt.Sprintf("%s: constructor constant for %s is %s, schema says %s", id, f, gv, v)
			}
		}
		for f := range gotConst {
			if _, ok := w.constants[f]; !ok {
				return "unexpected-constant", fmt.Sprintf("%s: field %s gets a constructor constant although the schema does not fix its value", id, f)
			}
		}
		// options
		if len(b.Options) != len(w.options) {
			var gn, wn []string
			for _, o := range b.Options {
				gn = append(gn, o.Name)
			}
			for _, o := range w.options {
				wn = append(wn, o.name)
			}
			return "option-set", fmt.Sprintf("%s: options %v, expected %v", id, gn, wn)
		}
		for oi, wo := range w.options {
			o := b.Options[oi]
			oid := id + "." + wo.name
			if o.Name != wo.name {
				return "option-name", fmt.Sprintf("%s: option #%d is %s", oid, oi, o.Name)
			}
			if len(o.Args) != 1 || o.Args[0].Name != wo.name {
				return "option-args", oid + ": expected exactly one argument named after the field"
			}
			if canon(o.Args[0].Type) != wo.argType {
				return "option-arg-type", fmt.Sprintf("%s: argument type %s, field type %s", oid, typeSummary(o.Args[0].Type, 0), wo.argType)
			}
			if canon(o.Comments) != wo.comments {
				return "option-comments", oid + ": comments differ from the field's"
			}
			if len(o.Assignments) != 1 {
				return "option-assignments", oid + ": expected exactly one assignment"
			}
			a := o.Assignments[0]
			if len(a.Path) != 1 || a.Path[0].Identifier != wo.name || a.Path[0].Index != nil || a.Path[0].Root {
				return "assignment-path", oid + ": assignment does not target the field directly"
			}
			if canon(a.Path[0].Type) != wo.pathType {
				return "assignment-path-type", oid + ": path item type differs from the field type"
			}
			if a.Method != ast.DirectAssignment {
				return "assignment-method", oid + ": method " + string(a.Method)
			}
			if a.Value.Argument == nil || a.Value.Constant != nil || a.Value.Envelope != nil || a.Value.Argument.Name != wo.name || canon(a.Value.Argument.Type) != wo.argType {
				return "assignment-value", oid + ": assigned value is not the option's argument"
			}
			var gc []string
			for _, c := range a.Constraints {
				if c.Argument.Name != wo.name || canon(c.Argument.Type) != wo.argType {
					return "constraint-argument", oid + ": constraint bound to another argument"
				}
				gc = append(gc, fmt.Sprintf("%s %s", c.Op, canon(c.Parameter)))
			}
			if strings.Join(gc, ";") != strings.Join(wo.constraints, ";") {
				return "assignment-constraints", fmt.Sprintf("%s: constraints %v, field declares %v", oid, gc, wo.constraints)
			}
			if len(a.NilChecks) != 0 {
				return "assignment-nilchecks", oid + ": nil checks before veneers"
			}
			switch {
			case wo.hasDefault && (o.Default == nil || len(o.Default.ArgsValues) != 1 || canon(o.Default.ArgsValues[0]) != wo.dflt):
				return "option-default", oid + ": option default differs from the field default " + wo.dflt
			case !wo.hasDefault && o.Default != nil:
				return "option-default", oid + ": option has a default, the field has none"
			}
		}
	}
	return "", ""
}

func checkC16(r *Run) {
	r.Rule = "irgen schema sets (aliases of structs, chains of aliases across packages, constant references, references to constants in other packages, fields of every kind), raw and after the Go chain, fed to BuilderGenerator.FromAST; result compared field by field with a reference derivation written from the property statement. distinct_nontrivial = distinct schema sets yielding at least one builder"
	n := r.n(300, 8000)
	for c := 0; c < n; c++ {
		rng := newRNG("C16", r.Seed, c)
		o := defaultIROpts()
		o.Pkgs = 3
		o.Depth = rng.Range(1, 3)
		o.UniqueNames = c%3 != 0
		o.NestedUnions = false
		schemas, tags := genSchemas(rng, o)
		c16Aim(rng, schemas)
		variants := []struct {
			name string
			s    ast.Schemas
		}{{"raw", schemas}}
		if c%2 == 0 {
			var processed ast.Schemas
			var err error
			pv, _ := guard(func() { processed, err = newLanguage("go").CompilerPasses().Process(schemas) })
			if pv == nil && err == nil {
				variants = append(variants, struct {
					name string
					s    ast.Schemas
				}{"after-go-chain", processed})
			}
		}
		for _, v := range variants {
			var got []ast.Builder
			pv, stack := guard(func() { got = (&ast.BuilderGenerator{}).FromAST(v.s) })
			r.Eval()
			if pv != nil {
				r.Count("derivation_panics(C04's business)", 1)
				_ = stack
				continue
			}
			if len(got) > 0 {
				r.Distinct(v.name + mustJSON(v.s))
			}
			cls, detail := compareBuilders(v.s, got)
			if cls != "" {
				small := shrinkSchemas(v.s, func(cand ast.Schemas) bool {
					var g2 []ast.Builder
					if pv, _ := guard(func() { g2 = (&ast.BuilderGenerator{}).FromAST(cand) }); pv != nil {
						return false
					}
					c2, _ := compareBuilders(cand, g2)
					return c2 == cls
				}, 150)
				var g3 []ast.Builder
				guard(func() { g3 = (&ast.BuilderGenerator{}).FromAST(small) })
				_, d3 := compareBuilders(small, g3)
				if d3 == "" {
					d3 = detail
				}
				r.Violation("derivation/"+cls, fmt.Sprintf("%s\nminimised schemas [%s]:\n%s", d3, irFeatures(small), irSummary(small)), map[string]any{"input_ir": mustJSON(small)})
			}
		}
		if c < 2 {
			r.Sample(map[string]any{"case": c, "tags": tags})
		}
	}
	c16Pipelines(r)
}

// c16Pipelines: the derivation as a real run performs it — one pipeline, several output languages, each with its own
// pass chain: the builders handed to each language (builders.derived hook) must be the ones derived from the schemas
// of *that* language.
func c16Pipelines(r *Run) {
	np := r.n(6, 60)
	dir, _ := os.MkdirTemp(scratchDir(), "c16-")
	defer os.RemoveAll(dir)
	events := 0
	for c := 0; c < np; c++ {
		format := []string{"jsonschema", "cue", "openapi"}[c%3]
		rng := newRNG("C16p", r.Seed, c)
		am := genAM(rng, capsFor(format), "pk", "builders")
		sub := filepath.Join(dir, fmt.Sprintf("p%d", c))
		in, txt := materializeAM(sub, am, format)
		cfg := pipeCfg{Inputs: []pipeInput{in}, Types: true, Builders: true, OutDir: filepath.Join(sub, "out", "%l")}
		for _, l := range []string{"go", "typescript", "python", "java", "php"} {
			cfg.Langs = append(cfg.Langs, langCfg{Name: l, Flags: defaultLangFlags(l)})
		}
		seen := map[string]bool{}
		withSink(func(site string, args ...any) {
			if site != "builders.derived" {
				return
			}
			lang, schemas, builders := args[0].(string), args[1].(ast.Schemas), args[2].(ast.Builders)
			events++
			seen[lang] = true
			r.Eval()
			r.Distinct(fmt.Sprintf("p%d-%s", c, lang))
			// a union of a string constant and string becomes a struct with two members named String (C02 finding
			// "String redeclared"): "every field covered exactly once" has no meaning for such a struct
			dupMembers := false
			for _, sc := range schemas {
				sc.Objects.Iterate(func(_ string, o ast.Object) {
					if o.Type.Kind == ast.KindStruct && o.Type.Struct != nil {
						names := map[string]bool{}
						for _, f := range o.Type.Struct.Fields {
							if names[f.Name] {
								dupMembers = true
							}
							names[f.Name] = true
						}
					}
				})
			}
			if dupMembers {
				r.Count("pipeline_languages_with_duplicate_member_names(not judged, C02 finding)", 1)
				return
			}
			if cls, detail := compareBuilders(schemas, builders); cls != "" {
				r.Violation("pipeline-derivation/"+cls, fmt.Sprintf("language %s of a five-language run (%s input): %s", lang, format, detail), map[string]any{"format": format, "schema": string(txt), "language": lang})
			}
		}, func() {
			_ = runPipelineYAML(sub, "pipeline.yaml", cfg.YAML(), filepath.Join(sub, "out"))
		})
	}
	r.Count("hook.builders.derived_events", events)
	if events == 0 {
		r.Inconclusive("hook builders.derived never fired in the pipeline workload")
	}
}

// c16Aim adds the shapes the property names explicitly: alias chains crossing packages that end in a
// constant, optional inline constants, references to constants of other packages.
func c16Aim(rng *RNG, schemas ast.Schemas) {
	if len(schemas) < 2 {
		return
	}
	a, b := schemas[0], schemas[1]
	b.AddObject(ast.NewObject(b.Package, "KindConst", ast.String(ast.Value("the-kind"))))
	a.AddObject(ast.NewObject(a.Package, "KindAlias", ast.NewRef(b.Package, "KindConst")))
	a.AddObject(ast.NewObject(a.Package, "StructAlias2", ast.NewRef(a.Package, "StructAlias1")))
	a.AddObject(ast.NewObject(a.Package, "StructAlias1", ast.NewRef(b.Package, "AimTarget")))
	b.AddObject(ast.NewObject(b.Package, "AimTarget", ast.NewStruct(
		ast.NewStructField("kind", ast.NewRef(a.Package, "KindAlias"), ast.Required()),
		ast.NewStructField("direct", ast.NewRef(b.Package, "KindConst"), ast.Required()),
		ast.NewStructField("maybeKind", ast.NewRef(a.Package, "KindAlias")),
		ast.NewStructField("inlineConst", ast.String(ast.Value("row")), ast.Required()),
		ast.NewStructField("optionalConst", ast.String(ast.Value("opt"))),
		ast.NewStructField("nullableConst", ast.String(ast.Value("nul"), ast.Nullable()), ast.Required()),
		ast.NewStructField("count", ast.NewScalar(ast.KindInt64, ast.Default(int64(3))), ast.Required()),
		// the same operator several times with different parameters
		ast.NewStructField("login", withConstraints(ast.String(), ast.TypeConstraint{Op: ast.NotEqualOp, Args: []any{""}}, ast.TypeConstraint{Op: ast.NotEqualOp, Args: []any{"root"}}, ast.TypeConstraint{Op: ast.NotEqualOp, Args: []any{"admin"}}), ast.Required()),
		ast.NewStructField("label", withConstraints(ast.String(), ast.TypeConstraint{Op: ast.MinLengthOp, Args: []any{int64(1)}}, ast.TypeConstraint{Op: ast.MaxLengthOp, Args: []any{int64(64)}}, ast.TypeConstraint{Op: ast.MinLengthOp, Args: []any{int64(3)}})),
		// names that differ only by letter case are different fields
		ast.NewStructField("id", ast.String(), ast.Required()),
		ast.NewStructField("ID", ast.NewScalar(ast.KindInt64)),
		// "re-exported" names: a chain of references whose hops carry the same object name in different packages
		ast.NewStructField("sameNameKind", ast.NewRef(a.Package, "Reexported"), ast.Required()),
	)))
	b.AddObject(ast.NewObject(b.Package, "Reexported", ast.String(ast.Value("re-exported"))))
	a.AddObject(ast.NewObject(a.Package, "Reexported", ast.NewRef(b.Package, "Reexported")))
	b.AddObject(ast.NewObject(b.Package, "SameNameStruct", ast.NewStruct(ast.NewStructField("x", ast.String()))))
	a.AddObject(ast.NewObject(a.Package, "SameNameStruct", ast.NewRef(b.Package, "SameNameStruct")))
	if len(schemas) > 2 {
		c := schemas[2]
		c.AddObject(ast.NewObject(c.Package, "SameNameStruct", ast.NewRef(a.Package, "SameNameStruct")))
	}
}

func withConstraints(t ast.Type, cs ...ast.TypeConstraint) ast.Type {
	t.Scalar.Constraints = cs
	return t
}
