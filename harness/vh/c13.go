package main

import (
	"fmt"
	"strings"
)

// C13 — generated Equals is an equivalence matching equality of the encoded values.

func init() { register("C13", checkC13) }

func checkC13(r *Run) {
	n := r.n(12, 200)
	r.Rule = "AM schemas (nested arrays/maps of nullable references, optional scalars, enums, any, unions), 3 formats, Go types with generate_equal; per object: every accepted document paired with itself, with single-leaf variants at every depth (incl. one renamed map key, emptied collections) and with other documents; Equals(a,b), Equals(b,a) and both re-encodings recorded by the driver. Oracle: reflexivity, symmetry, transitivity over the pair table, J(a)=J(b) ⇒ equal, equal ⇒ J(a)=J(b) up to null/absent/empty collections. distinct_nontrivial = distinct (schema, object, pair) executed"
	c := buildCorpus(r, corpusOpts{N: n, Formats: []string{"jsonschema", "openapi", "cue"}, Profile: "general", Langs: []string{"go"}, DocsPerObj: r.n(6, 10), Tag: "c13"})
	defer c.cleanup()
	if err := c.buildGoDriver(); err != nil {
		r.Inconclusive("go driver: " + err.Error())
		return
	}
	for sid, d := range c.BrokenGo {
		r.CaseInconclusive("generated Go of " + sid + " does not compile (C02's business): " + d)
	}
	type pmeta struct {
		cs   *corpusSchema
		obj  *amObject
		a, b int // doc indexes in the object's doc list
		kind string
	}
	var reqs []drvReq
	metas := map[string]pmeta{}
	docsOf := map[string][]amDoc{}
	for _, cs := range c.Schemas {
		if !cs.GoOK {
			continue
		}
		dg := &docGen{s: cs.AM, rng: newRNG("c13docs", r.Seed, cs.ID)}
		for _, on := range sortedObjNames(cs.Docs) {
			if !cs.GoTypes[on] {
				continue
			}
			obj := cs.AM.obj(on)
			docs := append([]amDoc(nil), cs.Docs[on]...)
			nBase := len(docs)
			// single-leaf variants of the two richest documents
			for bi := 0; bi < nBase && bi < 3; bi++ {
				for _, v := range dg.leafVariants(obj, docs[bi], r.n(14, 30)) {
					if err := cs.Validator.Validate(on, v.JSON()); err != nil {
						r.Count("variants_rejected_by_reference_validator(discarded)", 1)
						continue
					}
					docs = append(docs, v)
				}
			}
			key := cs.ID + "." + on
			docsOf[key] = docs
			addPair := func(a, b int, kind string) {
				id := fmt.Sprintf("%s#%d-%d", key, a, b)
				if _, dup := metas[id]; dup {
					return
				}
				reqs = append(reqs, drvReq{ID: id, Op: "equals", Type: key, Doc: docs[a].JSON(), Doc2: docs[b].JSON()})
				metas[id] = pmeta{cs, obj, a, b, kind}
			}
			for i := range docs {
				addPair(i, i, "identical")
			}
			// all pairs among a small clique (for transitivity), variants against their base
			clique := min(len(docs), 5)
			for i := 0; i < clique; i++ {
				for j := i + 1; j < clique; j++ {
					addPair(i, j, "clique")
				}
			}
			for i := nBase; i < len(docs); i++ {
				for bi := 0; bi < nBase && bi < 3; bi++ {
					addPair(bi, i, "base-vs-variant")
				}
			}
		}
	}
	resps, err := c.runGo(reqs)
	if err != nil {
		r.Inconclusive("go driver run: " + err.Error())
	}
	type edge struct{ a, b int }
	equalTable := map[string]map[edge]bool{}
	for _, q := range reqs {
		m := metas[q.ID]
		resp, ok := resps[q.ID]
		if !ok {
			r.CaseInconclusive("no driver response for " + q.ID)
			continue
		}
		if resp.Unknown {
			continue
		}
		r.Eval()
		r.Distinct(q.ID + string(q.Doc) + string(q.Doc2))
		r.Count("pairs/"+m.kind, 1)
		replay := map[string]any{"format": m.cs.Format, "object": m.obj.Name, "a": string(q.Doc), "b": string(q.Doc2), "schema": string(m.cs.SchemaText)}
		if resp.Panic != "" {
			r.Violation("generated-code-panic/"+maskMsg(resp.Panic), fmt.Sprintf("%s on pair %s / %s", resp.Panic, q.Doc, q.Doc2), replay)
			continue
		}
		if resp.DecodeErr != "" || resp.Equal == nil || resp.EqualRev == nil {
			r.Count("pairs_not_decodable(C01's business)", 1)
			continue
		}
		eq, rev := *resp.Equal, *resp.EqualRev
		key := m.cs.ID + "." + m.obj.Name
		if equalTable[key] == nil {
			equalTable[key] = map[edge]bool{}
		}
		equalTable[key][edge{m.a, m.b}] = eq
		equalTable[key][edge{m.b, m.a}] = rev
		ja, _ := parseJSONNum(resp.Out)
		jb, _ := parseJSONNum(resp.StrictOut)
		exact := jsonDiff(ja, jb, jsonCmpOpts{}, "")
		loose := jsonDiff(ja, jb, jsonCmpOpts{NilEqualsEmpty: true, AbsentEqualsEmpty: true}, "")
		where := func(d string) string {
			p := d
			if i := strings.Index(d, ":"); i >= 0 {
				p = d[:i]
			}
			return stripDefaults(tagAtPath(m.cs.AM, m.obj.T, p))
		}
		if eq != rev {
			r.Violation("not-symmetric/"+where(firstNonEmpty(exact, loose)), fmt.Sprintf("a.Equals(b)=%v but b.Equals(a)=%v for a=%s b=%s", eq, rev, resp.Out, resp.StrictOut), replay)
			continue
		}
		offsetTime := strings.Contains(string(q.Doc), "+05:30\"") || strings.Contains(string(q.Doc2), "+05:30\"")
		if m.a == m.b && !eq && offsetTime {
			// tagged class: date-time values carrying a non-UTC offset
			r.Violation("not-reflexive/datetime-with-offset", fmt.Sprintf("two decodings of %s are not Equal", q.Doc), replay)
			continue
		}
		if m.a == m.b && !eq {
			r.Violation("not-reflexive", fmt.Sprintf("two decodings of %s are not Equal", q.Doc), replay)
			continue
		}
		if exact == "" && !eq && offsetTime {
			r.Violation("same-json-not-equal/datetime-with-offset", fmt.Sprintf("values encoding to the same JSON %s are not Equal", resp.Out), replay)
			continue
		}
		if exact == "" && !eq {
			r.Violation("same-json-not-equal", fmt.Sprintf("values encoding to the same JSON %s are not Equal (documents %s / %s)", resp.Out, q.Doc, q.Doc2), replay)
			continue
		}
		if eq && loose != "" && (strings.HasSuffix(loose, "vs absent") || strings.Contains(loose, ": absent vs")) && parentIsMap(m.cs.AM, m.obj.T, loose) {
			r.Violation("equal-but-different-json/map-key-differs", fmt.Sprintf("Equals returns true for maps with different keys (%s):\n a=%s\n b=%s", loose, resp.Out, resp.StrictOut), replay)
			continue
		}
		if eq && loose != "" {
			r.Violation("equal-but-different-json/"+where(loose)+"/"+diffKind(loose), fmt.Sprintf("Equals returns true for values encoding differently at %s:\n a=%s\n b=%s", loose, resp.Out, resp.StrictOut), replay)
		}
		if len(r.samples) < 3 {
			r.Sample(map[string]any{"object": m.obj.Name, "a": string(q.Doc), "b": string(q.Doc2), "equal": eq})
		}
	}
	// transitivity over each object's pair table
	for key, tab := range equalTable {
		nodes := map[int]bool{}
		for e := range tab {
			nodes[e.a] = true
		}
		for a := range nodes {
			for b := range nodes {
				for cc := range nodes {
					ab, ok1 := tab[edge{a, b}]
					bc, ok2 := tab[edge{b, cc}]
					ac, ok3 := tab[edge{a, cc}]
					if ok1 && ok2 && ok3 && ab && bc && !ac {
						docs := docsOf[key]
						r.Violation("not-transitive", fmt.Sprintf("%s: a=b and b=c but a≠c for a=%s b=%s c=%s", key, docs[a].JSON(), docs[b].JSON(), docs[cc].JSON()), map[string]any{"object": key})
					}
					if ok1 && ok2 && ok3 {
						r.Count("transitivity_triples_checked", 1)
					}
				}
			}
		}
	}
}

func firstNonEmpty(a, b string) string {
	if a != "" {
		return a
	}
	return b
}

// parentIsMap: the container of the differing member (path taken from a jsonDiff message) is a map.
func parentIsMap(s *amSchema, root *amType, diff string) bool {
	p := diff
	if i := strings.Index(diff, ":"); i >= 0 {
		p = diff[:i]
	}
	i := strings.LastIndex(p, ".")
	if i <= 0 {
		return false
	}
	return strings.HasPrefix(tagAtPath(s, root, p[:i]), "map") || strings.HasPrefix(tagAtPath(s, root, p[:i]), "ref>map")
}
