package main

// Aimed schemas: fixed AM shapes that put the generators' attention on constructs that random
// generation reaches rarely (found by reading the code and by reviewing seeded faults). They are
// appended to every executed corpus; capabilities of the target format prune what it cannot express.

func st(fields ...*amField) *amType {
	return &amType{K: "struct", Fields: fields, MinLen: -1, MaxLen: -1}
}
func fld(name string, req bool, t *amType) *amField {
	return &amField{Name: name, Required: req, T: t}
}
func ty(k string) *amType                  { return &amType{K: k, MinLen: -1, MaxLen: -1} }
func tyw(k, w string) *amType              { return &amType{K: k, Width: w, MinLen: -1, MaxLen: -1} }
func arr(e *amType) *amType                { return &amType{K: "array", Elem: e, MinLen: -1, MaxLen: -1} }
func mp(e *amType) *amType                 { return &amType{K: "map", Elem: e, MinLen: -1, MaxLen: -1} }
func rf(name string) *amType               { return &amType{K: "ref", Ref: name, MinLen: -1, MaxLen: -1} }
func nullable(t *amType) *amType           { c := *t; c.Nullable = true; return &c }
func withDefault(t *amType, d any) *amType { c := *t; c.Default = d; return &c }
func un(br ...*amType) *amType             { return &amType{K: "union", Branches: br, MinLen: -1, MaxLen: -1} }
func enumS(vs ...string) *amType           { return &amType{K: "enum", EnumS: vs, MinLen: -1, MaxLen: -1} }
func konst(v any) *amType                  { return &amType{K: "const", Const: v, MinLen: -1, MaxLen: -1} }
func bounded(t *amType, lo, hi float64) *amType {
	c := *t
	c.Lo, c.Hi = &amBound{V: lo}, &amBound{V: hi}
	return &c
}
func strLen(lo, hi int) *amType { return &amType{K: "string", MinLen: lo, MaxLen: hi} }

func aimedAMs(caps amCaps) []*amSchema {
	intW := pickWidthDefault(caps.IntWidths, "int64")
	fltW := pickWidthDefault(caps.FloatWidths, "float64")
	mk := func(objs ...*amObject) *amSchema {
		return &amSchema{Pkg: "pk", Objs: objs, Tags: map[string]int{"aimed": 1}}
	}
	var out []*amSchema

	// 1. the same scalar union (with and without null) used several times, required and optional
	u := func(n bool) *amType {
		t := un(ty("string"), tyw("int", intW))
		t.Nullable = n && caps.NullableRefs
		return t
	}
	out = append(out, mk(&amObject{"Unions", st(
		fld("first", true, u(true)), fld("second", true, u(true)), fld("third", false, u(true)),
		fld("plainA", true, u(false)), fld("plainB", false, u(false)),
		fld("listed", true, arr(u(false))), fld("keyed", false, mp(u(false))),
	)}))

	// 2. nested collections with constrained leaves (2a) and named collections referenced optionally (2b); kept
	// apart because 2b trips a known panic of the strict decoder, which would hide everything else in the document
	out = append(out, mk(
		&amObject{"Item", st(fld("name", true, strLen(1, 6)), fld("weight", false, bounded(tyw("float", fltW), 0.5, 90.25)))},
		&amObject{"Grid", st(
			fld("cells", true, arr(arr(bounded(tyw("int", intW), 1, 50)))),
			fld("matrix", false, arr(arr(rf("Item")))),
			fld("index", true, mp(mp(strLen(1, 4)))),
			fld("byName", false, mp(rf("Item"))),
			fld("groups", false, mp(arr(rf("Item")))),
		)},
		// containers nested in containers, one member each (a known strict-decoder panic on one shape must not hide the others)
		&amObject{"NestA", st(fld("groups", true, mp(arr(rf("Item")))))},
		&amObject{"NestB", st(fld("lists", true, mp(arr(strLen(1, 4)))))},
		&amObject{"NestC", st(fld("rows", true, arr(mp(strLen(1, 4)))))},
		&amObject{"NestD", st(fld("deep", true, mp(arr(mp(tyw("int", intW))))))},
	))
	out = append(out, mk(
		&amObject{"Item", st(fld("name", true, strLen(1, 6)), fld("weight", false, bounded(tyw("float", fltW), 0.5, 90.25)))},
		&amObject{"Items", arr(rf("Item"))},
		&amObject{"Labels", arr(strLen(1, 5))},
		&amObject{"Shelf", st(
			fld("items", false, rf("Items")),
			fld("labels", false, rf("Labels")),
			fld("mustItems", true, rf("Items")),
		)},
	))

	// 12. union branches that share non-string constants next to their string discriminator; several unions, since
	// whatever is inferred for a union is inferred independently for each
	if caps.DiscUnions && caps.Consts && caps.NonStringConst {
		wire := &amObject{"Wire", st(fld("kind", true, konst("wire")), fld("version", true, konst(int64(1))), fld("stable", true, konst(true)),
			fld("gauge", true, strLen(1, 6)))}
		pipe := &amObject{"Pipe", st(fld("kind", true, konst("pipe")), fld("version", true, konst(int64(1))), fld("stable", true, konst(true)),
			fld("width", true, strLen(2, 4)))}
		objs := []*amObject{wire, pipe}
		var flds []*amField
		for _, n := range []string{"LinkA", "LinkB", "LinkC", "LinkD"} {
			objs = append(objs, &amObject{n, &amType{K: "union", Disc: "kind", MinLen: -1, MaxLen: -1, Branches: []*amType{rf("Wire"), rf("Pipe")}}})
			flds = append(flds, fld(lowerFirst(n), true, rf(n)))
		}
		objs = append(objs, &amObject{"Links", st(flds...)})
		out = append(out, mk(objs...))
	}

	// 3. date-time in every position
	if caps.DateTime {
		out = append(out, mk(&amObject{"Times", st(
			fld("created", true, ty("datetime")), fld("updated", false, ty("datetime")),
			fld("deleted", true, nullable(ty("datetime"))), fld("history", false, arr(ty("datetime"))),
			fld("byKey", false, mp(ty("datetime"))),
		)}))
	}

	// 4. discriminated union with branches declared in non-alphabetical discriminator order
	if caps.DiscUnions {
		fam := func(name string, extra *amField) *amObject {
			return &amObject{name, st(fld("kind", true, konst(lowerFirst(name))), extra)}
		}
		shape := &amType{K: "union", Disc: "kind", MinLen: -1, MaxLen: -1, Branches: []*amType{rf("Tri"), rf("Circle"), rf("Square")}}
		out = append(out, mk(
			fam("Tri", fld("sides", true, tyw("int", intW))),
			fam("Circle", fld("radius", false, tyw("float", fltW))),
			fam("Square", fld("side", true, ty("string"))),
			&amObject{"Shape", shape},
			&amObject{"Canvas", st(
				fld("main", true, rf("Shape")), fld("backup", false, rf("Shape")),
				fld("all", true, arr(rf("Shape"))), fld("named", false, mp(rf("Shape"))),
			)},
		))
	}

	// 5. defaults: zero-valued defaults, optional non-scalars with defaults, enum references
	if caps.Defaults {
		mode := &amObject{"Mode", enumS("auto", "manual", "off")}
		opts := st(
			fld("flag", false, withDefault(ty("bool"), false)),
			fld("on", false, withDefault(ty("bool"), true)),
			fld("zero", false, withDefault(tyw("int", intW), num(0))),
			fld("count", true, withDefault(tyw("int", intW), num(7))),
			fld("ratio", false, withDefault(tyw("float", fltW), num("0.5"))),
			fld("empty", false, withDefault(ty("string"), "")),
			fld("name", true, withDefault(ty("string"), "unnamed")),
			fld("tags", false, withDefault(arr(ty("string")), []any{"a", "b"})),
		)
		if caps.EnumDefaults {
			opts.Fields = append(opts.Fields, fld("inline", false, withDefault(enumS("red", "green"), "green")))
			if caps.Format != "openapi" {
				opts.Fields = append(opts.Fields, fld("mode", false, withDefault(rf("Mode"), "manual")))
			}
		}
		objs := []*amObject{mode, {"Options", opts}}
		if caps.StructDefaults {
			// struct default with partial, zero-valued overrides of fields that have their own defaults
			view := &amObject{"View", st(
				fld("show", true, withDefault(ty("bool"), true)),
				fld("title", true, withDefault(ty("string"), "untitled")),
				fld("rows", true, withDefault(tyw("int", intW), num(3))),
				fld("note", false, ty("string")),
			)}
			objs = append(objs, view)
			opts.Fields = append(opts.Fields,
				fld("view", true, withDefault(rf("View"), map[string]any{"show": false, "title": "", "rows": num(0)})),
				fld("otherView", false, withDefault(rf("View"), map[string]any{"show": true, "title": "custom", "rows": num(9)})),
			)
			// struct defaults that override a union member, designating its scalar branches and its list branch
			if caps.Unions {
				target := &amObject{"Target", st(
					fld("label", true, withDefault(ty("string"), "none")),
					fld("targets", true, un(ty("string"), ty("bool"), arr(ty("string")))),
					fld("limit", true, un(ty("string"), tyw("int", intW))),
				)}
				objs = append(objs, target, &amObject{"Targets", st(
					fld("single", true, withDefault(rf("Target"), map[string]any{"targets": "all", "limit": num(10)})),
					fld("multiple", true, withDefault(rf("Target"), map[string]any{"targets": []any{"a", "b"}, "limit": "unlimited"})),
					fld("flag", false, withDefault(rf("Target"), map[string]any{"targets": true, "limit": "x"})),
				)})
			}
		}
		out = append(out, mk(objs...))
	}
	// 13. constrained scalars that also have a default (CUE: `T & constraints | *d`)
	if caps.Defaults {
		out = append(out, mk(&amObject{"Guarded", st(
			fld("code", true, withDefault(strLen(1, 6), "dflt")),
			fld("level", true, withDefault(bounded(tyw("int", intW), 0, 36), num(12))),
			fld("floor", false, withDefault(bounded(tyw("int", intW), 2, 36), num(12))),
			fld("share", false, withDefault(bounded(tyw("float", fltW), 0.5, 90.25), num("1.5"))),
		)}))
	}
	// 6. enums whose members need care when turned into identifiers
	if caps.Enums {
		out = append(out, mk(
			&amObject{"Codes", enumS("1", "2", "12")},
			&amObject{"Styles", enumS("dark-mode", "x_y", "UP", "down under")},
			&amObject{"Themed", st(
				fld("code", true, rf("Codes")), fld("style", false, rf("Styles")),
				fld("inlineCode", false, enumS("10", "20")), fld("codes", false, arr(rf("Codes"))),
			)},
		))
	}
	// 7. integers beyond 2^53 as defaults and constants (not representable as float64)
	if caps.Defaults {
		big := tyw("int", pickWidthDefault(caps.IntWidths, "int64"))
		flds := []*amField{
			fld("id", true, withDefault(big, num("9007199254740993"))),
			fld("limit", false, withDefault(big, num("9223372036854775807"))),
			fld("floor", false, withDefault(big, num("-9007199254740995"))),
			fld("small", true, withDefault(big, num("7"))),
		}
		if caps.NonStringConst && caps.Consts {
			flds = append(flds, fld("magic", true, konst(int64(9007199254740993))))
			if caps.Format == "jsonschema" {
				scale := konst(int64(39))
				scale.Width = "float64"
				flds = append(flds, fld("scale", true, scale), fld("step", true, konst(int64(7))))
			}
		}
		out = append(out, mk(&amObject{"BigNumbers", st(flds...)}))
	}
	// 8. arrays and maps whose elements are nullable references to enums / scalar aliases / structs
	if caps.NullableRefs && caps.Enums {
		out = append(out, mk(
			&amObject{"Level", enumS("low", "mid", "high")},
			&amObject{"Ident", strLen(1, 6)},
			&amObject{"Sparse", st(
				fld("levels", true, arr(nullable(rf("Level")))),
				fld("idents", false, arr(nullable(rf("Ident")))),
				fld("grid", false, arr(arr(nullable(rf("Level"))))),
				fld("byKey", false, mp(nullable(rf("Level")))),
			)},
		))
		// (kept apart: struct elements exercise other generated code than enum / scalar-alias elements)
		out = append(out, mk(
			&amObject{"Node", st(fld("name", true, strLen(1, 6)))},
			&amObject{"SparseNodes", st(
				fld("nodes", true, arr(nullable(rf("Node")))),
				fld("byKey", false, mp(nullable(rf("Node")))),
			)},
		))
	}
	// 10. constrained struct reached through chains of named aliases
	out = append(out, mk(
		&amObject{"Inner", st(fld("name", true, strLen(1, 6)), fld("level", false, bounded(tyw("int", intW), 1, 50)))},
		&amObject{"AliasOne", rf("Inner")},
		&amObject{"AliasTwo", rf("AliasOne")},
		// (no *required* member of alias type: Go then calls a NewAliasTwo() it does not generate — known C02 finding —
		// and the schema would be lost to every executing check)
		&amObject{"Chained", st(
			fld("opt", false, rf("AliasTwo")),
			fld("one", false, rf("AliasOne")),
			fld("list", true, arr(rf("AliasTwo"))),
			fld("byKey", false, mp(rf("AliasOne"))),
		)},
	))
	out = append(out, mk(
		&amObject{"Inner", st(fld("name", true, strLen(1, 6)))},
		&amObject{"AliasOne", rf("Inner")},
		&amObject{"AliasTwo", rf("AliasOne")},
		&amObject{"ChainedRequired", st(fld("direct", true, rf("AliasTwo")))},
	))
	// 11. named plain scalars (`type Label string`) referenced by optional and required members: the documents hold
	// the scalars' zero values too ("", 0, false), which an `omitempty` non-pointer field would drop
	out = append(out, mk(
		&amObject{"Label", ty("string")},
		&amObject{"Count", tyw("int", intW)},
		&amObject{"Ratio", tyw("float", fltW)},
		&amObject{"Flag", ty("bool")},
		&amObject{"Named", st(
			fld("label", false, rf("Label")), fld("count", false, rf("Count")),
			fld("ratio", false, rf("Ratio")), fld("flag", false, rf("Flag")),
			fld("labelReq", true, rf("Label")), fld("countReq", true, rf("Count")), fld("flagReq", true, rf("Flag")),
		)},
	))
	// 9. every scalar kind and width, nullable, required and optional
	if caps.Nullable {
		var flds []*amField
		add := func(name string, t *amType) {
			flds = append(flds, fld(name+"Req", true, nullable(t)), fld(name+"Opt", false, nullable(t)))
		}
		for _, w := range caps.IntWidths {
			add("i"+w, tyw("int", w))
			add("ib"+w, bounded(tyw("int", w), 1, 100))
		}
		for _, w := range caps.FloatWidths {
			add("f"+w, tyw("float", w))
		}
		add("s", ty("string"))
		add("sl", strLen(1, 6))
		if caps.NullableBool {
			add("b", ty("bool"))
		}
		if caps.DateTime {
			add("t", ty("datetime"))
		}
		out = append(out, mk(&amObject{"Nullables", st(flds...)}))
		if caps.Format == "jsonschema" {
			// the `"type": [T, "null"]` spelling, null listed last and first
			flds = nil
			for _, style := range []string{"last", "first"} {
				for _, k := range []string{"int", "float", "string", "bool"} {
					t := nullable(ty(k))
					t.NullStyle = style
					flds = append(flds, fld(k+"Null"+upperFirst(style)+"Req", true, t), fld(k+"Null"+upperFirst(style)+"Opt", false, t))
				}
			}
			out = append(out, mk(&amObject{"TypeArrays", st(flds...)}))
		}
	}
	return out
}

func pickWidthDefault(ws []string, prefer string) string {
	for _, w := range ws {
		if w == prefer {
			return w
		}
	}
	if len(ws) > 0 {
		return ws[0]
	}
	return ""
}
