package main

import (
	"bytes"
	"context"
	"fmt"
	"os"
	"path/filepath"
	"sort"
	"strings"

	"github.com/grafana/cog/internal/ast"
	"github.com/grafana/cog/internal/ast/compiler"
	"github.com/grafana/cog/internal/codegen"
	cogyaml "github.com/grafana/cog/internal/yaml"
)

// C05 — every reference in the IR resolves.
// (a) parser output (real pipeline, LoadSchemas): no reference into a loaded package dangles;
// (b) built-in language chains never turn a resolving reference into a dangling one (builder targets
//     included);
// (c) name-changing transformations (YAML: rename_object, duplicate_object, unspec, replace_reference;
//     library: name prefixing) keep every reference resolving, alone and in sequences;
// (d) allowed_objects keeps exactly the listed objects plus their reference closure.

func init() { register("C05", checkC05) }

func danglingKey(p refPos) string { return p.Kind }

func reportNewDangling(r *Run, prefix string, before, after ast.Schemas, describe func() string, replay any) bool {
	was := map[string]bool{}
	for _, p := range danglingRefs(before) {
		was[p.Kind+"|"+p.Pkg+"."+p.Target] = true
	}
	found := false
	seen := map[string]bool{}
	for _, p := range danglingRefs(after) {
		if was[p.Kind+"|"+p.Pkg+"."+p.Target] {
			continue
		}
		key := prefix + "/dangling-" + danglingKey(p)
		if seen[key] {
			continue
		}
		seen[key] = true
		found = true
		r.Violation(key, fmt.Sprintf("%s reference %s.%s at %s no longer resolves.\n%s", p.Kind, p.Pkg, p.Target, p.Where, describe()), replay)
	}
	return found
}

func checkC05(r *Run) {
	r.Rule = "(a) AM schemas in 3 formats through the real pipeline, IR inspected after LoadSchemas; (b) irgen and parsed IRs through every language chain (+derived builders); (c) sequences (length 1–4) of rename_object / duplicate_object / unspec / replace_reference loaded from YAML plus library name-prefixing, with exact / case-variant / absent / cross-package targets; (d) allowed_objects selections of ≤3 objects vs an independent reference closure. Oracle: independent walker over every reference position (type refs incl. map keys, constant refs, discriminator mappings, hint mappings, entry points). distinct_nontrivial = distinct (IR, configuration) pairs"
	dir, _ := os.MkdirTemp(scratchDir(), "c05-")
	defer os.RemoveAll(dir)

	// ---- (a0) reference spellings of JSON Schema the abstract model does not produce
	for i, doc := range c05RefSpellings {
		sub := filepath.Join(dir, fmt.Sprintf("spell%d", i))
		_ = os.MkdirAll(sub, 0o755)
		p := filepath.Join(sub, "pk.json")
		_ = os.WriteFile(p, []byte(doc), 0o644)
		cfg := pipeCfg{Inputs: []pipeInput{{Kind: "jsonschema", Path: p, Package: "pk"}}, Types: true, OutDir: filepath.Join(sub, "out"), Langs: []langCfg{{Name: "typescript"}}}
		pf := filepath.Join(sub, "pipeline.yaml")
		_ = os.WriteFile(pf, []byte(cfg.YAML()), 0o644)
		var schemas ast.Schemas
		var err error
		pv, _ := guard(func() {
			var pl *codegen.Pipeline
			pl, err = codegen.PipelineFromFile(pf, codegen.Parameters(nil))
			if err == nil {
				schemas, err = pl.LoadSchemas(context.Background())
			}
		})
		r.Eval()
		if pv != nil || err != nil {
			r.Count("reference_spelling_documents_failing(skipped)", 1)
			continue
		}
		r.Distinct("spelling" + doc)
		r.Count("reference_spelling_documents", 1)
		for _, dp := range danglingRefs(schemas) {
			r.Violation("parser/jsonschema/reference-spelling/dangling-"+dp.Kind, fmt.Sprintf("after parsing, %s reference %s.%s at %s does not resolve", dp.Kind, dp.Pkg, dp.Target, dp.Where), map[string]any{"format": "jsonschema", "schema": doc})
		}
	}

	// ---- (a) + (d): parser output and allowed_objects, through the pipeline
	na := r.n(10, 150)
	for c := 0; c < na; c++ {
		for _, format := range []string{"jsonschema", "openapi", "cue"} {
			rng := newRNG("C05am", r.Seed, c, format)
			am := genAM(rng, capsFor(format), "pk", "general")
			sub := filepath.Join(dir, fmt.Sprintf("a%d-%s", c, format))
			in, txt := materializeAM(sub, am, format)
			load := func(allowed []string) (ast.Schemas, error) {
				in2 := in
				in2.AllowedObjects = allowed
				cfg := pipeCfg{Inputs: []pipeInput{in2}, Types: true, OutDir: filepath.Join(sub, "out"), Langs: []langCfg{{Name: "typescript"}}}
				pf := filepath.Join(sub, "pipeline.yaml")
				_ = os.WriteFile(pf, []byte(cfg.YAML()), 0o644)
				var schemas ast.Schemas
				var err error
				pv, stack := guard(func() {
					var p *codegen.Pipeline
					p, err = codegen.PipelineFromFile(pf, codegen.Parameters(nil))
					if err != nil {
						return
					}
					schemas, err = p.LoadSchemas(context.Background())
				})
				if pv != nil {
					return nil, fmt.Errorf("panic %v @%s", pv, topCogFrame(stack))
				}
				return schemas, err
			}
			full, err := load(nil)
			r.Eval()
			if err != nil {
				r.Count("parser_errors(skipped)", 1)
				continue
			}
			r.Distinct("parse" + string(txt))
			r.Count("parsed_schemas", 1)
			for _, p := range danglingRefs(full) {
				r.Violation("parser/"+format+"/dangling-"+p.Kind, fmt.Sprintf("after parsing, %s reference %s.%s at %s does not resolve", p.Kind, p.Pkg, p.Target, p.Where), map[string]any{"format": format, "schema": string(txt)})
			}
			// (d) allowed_objects
			var names []string
			full[0].Objects.Iterate(func(k string, _ ast.Object) { names = append(names, k) })
			sort.Strings(names)
			for sel := 0; sel < r.n(3, 6) && len(names) > 1; sel++ {
				k := rng.Range(1, min(3, len(names)))
				pickd := append([]string(nil), names...)
				shuffle(rng, pickd)
				allowed := pickd[:k]
				sort.Strings(allowed)
				got, err := load(allowed)
				r.Eval()
				if err != nil {
					r.Count("allowed_objects_errors(skipped)", 1)
					continue
				}
				r.Distinct("allowed" + string(txt) + strings.Join(allowed, ","))
				want := refClosure(full, "pk", allowed)
				gotSet := map[string]bool{}
				for _, s := range got {
					s.Objects.Iterate(func(k string, _ ast.Object) { gotSet[s.Package+"."+k] = true })
				}
				var missing, extra []string
				for w := range want {
					if !gotSet[w] {
						missing = append(missing, w)
					}
				}
				for g := range gotSet {
					if !want[g] {
						extra = append(extra, g)
					}
				}
				sort.Strings(missing)
				sort.Strings(extra)
				replay := map[string]any{"format": format, "schema": string(txt), "allowed_objects": allowed}
				if len(missing) > 0 {
					kinds := missingVia(full, allowed, missing)
					r.Violation("allowed_objects/missing-from-kept-set/via-"+kinds, fmt.Sprintf("allowed_objects=%v keeps %v; the reference closure also contains %v", allowed, sortedKeys(gotSet), missing), replay)
				}
				if len(extra) > 0 {
					r.Violation("allowed_objects/extra-in-kept-set", fmt.Sprintf("allowed_objects=%v keeps %v that nothing listed references (closure: %v)", allowed, extra, sortedKeys(want)), replay)
				}
				for _, p := range danglingRefs(got) {
					r.Violation("allowed_objects/dangling-"+p.Kind, fmt.Sprintf("allowed_objects=%v: %s reference %s.%s at %s dangles", allowed, p.Kind, p.Pkg, p.Target, p.Where), replay)
				}
				r.Count("allowed_objects_selections", 1)
			}
		}
	}

	// ---- (b) language chains on irgen IRs
	nb := r.n(120, 2500)
	for c := 0; c < nb; c++ {
		rng := newRNG("C05b", r.Seed, c)
		o := defaultIROpts()
		o.Pkgs = 3
		o.Depth = rng.Range(2, 4)
		o.NestedUnions = c%5 == 0
		o.AliasObjects = c%2 == 0
		o.Intersections = c%3 == 0
		o.UniqueNames = c%4 != 0
		schemas, _ := genSchemas(rng, o)
		if len(danglingRefs(schemas)) > 0 {
			r.Inconclusive("irgen produced a dangling reference (generator defect)")
			break
		}
		for _, lang := range langNames {
			var result ast.Schemas
			var err error
			pv, _ := guard(func() { result, err = newLanguage(lang).CompilerPasses().Process(schemas) })
			r.Eval()
			if pv != nil || err != nil {
				r.Count("chains_failed(C04's business)", 1)
				continue
			}
			r.Distinct("chain" + lang + fmt.Sprint(c))
			tagset := fmt.Sprintf("nested=%v,alias=%v,inter=%v,unique=%v", o.NestedUnions, o.AliasObjects, o.Intersections, o.UniqueNames)
			l := lang
			if len(newDangling(schemas, result)) > 0 {
				// attribute to the first pass of the chain that breaks a reference, then shrink
				culprit := func(in ast.Schemas) (string, *refPos) {
					cur := in
					for _, pass := range newLanguage(l).CompilerPasses() {
						next, err := compiler.Passes{pass}.Process(cur)
						if err != nil {
							return "", nil
						}
						if nd := newDangling(cur, next); len(nd) > 0 {
							return strings.TrimPrefix(strings.TrimPrefix(fmt.Sprintf("%T", pass), "*compiler."), "compiler."), &nd[0]
						}
						cur = next
					}
					return "", nil
				}
				passName, first := culprit(schemas)
				if first == nil {
					r.CaseInconclusive("dangling reference not attributable to a single pass")
					continue
				}
				small := shrinkSchemas(schemas, func(cand ast.Schemas) bool {
					pn, f := culprit(cand)
					return f != nil && pn == passName && f.Kind == first.Kind
				}, 150)
				after, _ := newLanguage(l).CompilerPasses().Process(cloneSchemas(small))
				// what kind of object the reference pointed to before the chain: the same pass may lose a target for unrelated reasons
				targetKind := "absent"
				if o, ok := small.LocateObject(first.Pkg, first.Target); ok {
					targetKind = string(o.Type.Kind)
					if o.Type.Kind == ast.KindRef {
						targetKind = "alias"
						if t2, ok := small.LocateObject(o.Type.Ref.ReferredPkg, o.Type.Ref.ReferredType); ok {
							targetKind = "alias-of-" + string(t2.Type.Kind)
						}
					}
				}
				r.Violation("chain/"+lang+"/"+passName+"/dangling-"+first.Kind+"/target:"+targetKind, fmt.Sprintf("in the %s chain, %s turns a resolving reference into a dangling one (%s.%s at %s) [%s].\nminimised input IR [%s]:\n%safter the chain:\n%s", lang, passName, first.Pkg, first.Target, first.Where, tagset, irFeatures(small), irSummary(small), irSummary(after)), map[string]any{"language": lang, "input_ir": mustJSON(small)})
				continue
			}
			// builder targets
			var builders []ast.Builder
			pv, _ = guard(func() { builders = (&ast.BuilderGenerator{}).FromAST(result) })
			if pv != nil {
				r.Count("builder_derivation_panics(C04's business)", 1)
				continue
			}
			for _, b := range builders {
				if !hasObject(result, b.For.SelfRef.ReferredPkg, b.For.SelfRef.ReferredType) {
					r.Violation("chain/"+lang+"/builder-target-dangling", fmt.Sprintf("builder %s.%s targets %s which is not in the IR", b.Package, b.Name, b.For.SelfRef.String()), map[string]any{"language": lang, "input_ir": mustJSON(schemas)})
				}
			}
		}
	}

	// ---- (c) name-changing transformations
	nc := r.n(400, 9000)
	for c := 0; c < nc; c++ {
		rng := newRNG("C05c", r.Seed, c)
		o := defaultIROpts()
		o.Pkgs = 2
		o.MaxObjs = 5
		o.Depth = 2
		o.UniqueNames = rng.Chance(0.7)
		o.NestedUnions = false
		o.Intersections = rng.Chance(0.2)
		schemas, _ := genSchemas(rng, o)
		if rng.Chance(0.3) {
			// a kubernetes-style envelope for unspec
			s := schemas[0]
			s.AddObject(ast.NewObject(s.Package, "spec", ast.NewStruct(ast.NewStructField("title", ast.String(), ast.Required()))))
			s.AddObject(ast.NewObject(s.Package, "Wrapper", ast.NewStruct(ast.NewStructField("spec", ast.NewRef(s.Package, "spec"), ast.Required()))))
		}
		nPasses := rng.Range(1, 4)
		var yamlDoc strings.Builder
		yamlDoc.WriteString("passes:\n")
		var descr []string
		usePrefix := rng.Chance(0.15)
		for i := 0; i < nPasses; i++ {
			s := pick(rng, schemas)
			var names []string
			s.Objects.Iterate(func(k string, _ ast.Object) { names = append(names, k) })
			target := pick(rng, names)
			spelled := target
			switch rng.Intn(5) {
			case 0:
				spelled = strings.ToLower(target)
			case 1:
				spelled = strings.ToUpper(target)
			case 2:
				if rng.Chance(0.3) {
					spelled = "NoSuchObject"
				}
			}
			switch rng.Intn(4) {
			case 0:
				fmt.Fprintf(&yamlDoc, "  - rename_object:\n      from: %s.%s\n      to: Renamed%d\n", s.Package, spelled, i)
				descr = append(descr, fmt.Sprintf("rename_object(%s.%s→Renamed%d)", s.Package, spelled, i))
			case 1:
				dest := pick(rng, schemas).Package
				fmt.Fprintf(&yamlDoc, "  - duplicate_object:\n      object: %s.%s\n      as: %s.Dup%d\n", s.Package, spelled, dest, i)
				descr = append(descr, fmt.Sprintf("duplicate_object(%s.%s as %s.Dup%d)", s.Package, spelled, dest, i))
			case 2:
				yamlDoc.WriteString("  - unspec: {}\n")
				descr = append(descr, "unspec")
			case 3:
				// towards an existing object of compatible package
				s2 := pick(rng, schemas)
				var names2 []string
				s2.Objects.Iterate(func(k string, _ ast.Object) { names2 = append(names2, k) })
				to := pick(rng, names2)
				fmt.Fprintf(&yamlDoc, "  - replace_reference:\n      from: %s.%s\n      to: %s.%s\n", s.Package, spelled, s2.Package, to)
				descr = append(descr, fmt.Sprintf("replace_reference(%s.%s→%s.%s)", s.Package, spelled, s2.Package, to))
			}
		}
		passes, err := cogyaml.NewCompilerLoader().Load(bytes.NewReader([]byte(yamlDoc.String())))
		if err != nil {
			r.CaseInconclusive("generated passes YAML rejected: " + err.Error())
			continue
		}
		if usePrefix {
			passes = append(passes, &compiler.PrefixObjectNames{Prefix: "Pre"})
			descr = append(descr, "prefix(Pre)")
		}
		// run pass by pass: attribute the first pass that breaks a reference
		perPassFound := false
		cur := schemas
		for pi, pass := range passes {
			var next ast.Schemas
			var perr error
			pv, _ := guard(func() { next, perr = compiler.Passes{pass}.Process(cur) })
			r.Eval()
			if pv != nil || perr != nil {
				r.Count("passes_failed(C04/C15's business)", 1)
				break
			}
			name := strings.TrimPrefix(strings.TrimPrefix(fmt.Sprintf("%T", pass), "*compiler."), "compiler.")
			if rr, ok := pass.(*compiler.ReplaceReference); ok && !hasObject(cur, rr.To.Package, rr.To.Object) {
				// outside the claim: "replace_reference towards an existing object"
				r.Count("replace_reference_towards_absent_object(out of claim)", 1)
				break
			}
			nd := newDangling(cur, next)
			if len(nd) > 0 {
				perPassFound = true
				seen := map[string]bool{}
				for _, p := range nd {
					key := "transform/" + name + "/dangling-" + p.Kind + "/" + spellingClass(descr[min(pi, len(descr)-1)], cur)
					if seen[key] {
						continue
					}
					seen[key] = true
					r.Violation(key, fmt.Sprintf("%s turns %s reference %s.%s (at %s) into a dangling one.\nsequence: %v\nIR before this pass:\n%sIR after:\n%s", descr[min(pi, len(descr)-1)], p.Kind, p.Pkg, p.Target, p.Where, descr, irSummary(cur), irSummary(next)), map[string]any{"passes": yamlDoc.String(), "prefix": usePrefix, "input_ir": mustJSON(schemas)})
				}
				break
			}
			cur = next
		}
		// the same sequence in ONE Passes.Process call, as cog runs it: structure shared between the results of
		// earlier passes is not un-shared by the deep copy each Process call starts with
		was := map[string]bool{}
		for _, p := range danglingRefs(schemas) {
			was[p.Kind+"|"+p.Pkg+"."+p.Target] = true
		}
		reported := perPassFound // already attributed to one pass: the single-call run would only repeat it
		withSink(func(site string, args ...any) {
			if site != "pass.after" || reported {
				return
			}
			pi := args[0].(int)
			after := args[2].(ast.Schemas)
			name := strings.TrimPrefix(strings.TrimPrefix(fmt.Sprintf("%T", args[1]), "*compiler."), "compiler.")
			if rr, ok := args[1].(*compiler.ReplaceReference); ok && !hasObject(after, rr.To.Package, rr.To.Object) {
				reported = true // outside the claim
				return
			}
			for _, p := range danglingRefs(after) {
				k := p.Kind + "|" + p.Pkg + "." + p.Target
				if was[k] {
					continue
				}
				was[k] = true
				if reported {
					continue
				}
				reported = true
				r.Violation("transform-sequence/"+name+"/dangling-"+p.Kind, fmt.Sprintf("in one Passes.Process call, %s (pass #%d of %v) turns %s reference %s.%s (at %s) into a dangling one.\nIR after:\n%s", descr[min(pi, len(descr)-1)], pi, descr, p.Kind, p.Pkg, p.Target, p.Where, irSummary(after)), map[string]any{"passes": yamlDoc.String(), "prefix": usePrefix, "input_ir": mustJSON(schemas)})
			}
		}, func() {
			guard(func() { _, _ = compiler.Passes(passes).Process(schemas) })
		})
		r.Eval()
		r.Distinct("seq" + yamlDoc.String() + fmt.Sprint(c))
		if c < 2 {
			r.Sample(map[string]any{"sequence": descr})
		}
	}
	r.Count("transformation_sequences", nc)
}

// spellingClass tells how the pass designated its target: exact / case-variant / absent.
func spellingClass(descr string, schemas ast.Schemas) string {
	i := strings.Index(descr, "(")
	if i < 0 {
		return "n/a"
	}
	arg := descr[i+1:]
	end := strings.IndexAny(arg, "→ )")
	if end > 0 {
		arg = arg[:end]
	}
	parts := strings.SplitN(arg, ".", 2)
	if len(parts) != 2 {
		return "n/a"
	}
	if hasObject(schemas, parts[0], parts[1]) {
		return "exact-name"
	}
	for _, s := range schemas {
		if s.Package != parts[0] {
			continue
		}
		found := false
		s.Objects.Iterate(func(k string, _ ast.Object) {
			if strings.EqualFold(k, parts[1]) {
				found = true
			}
		})
		if found {
			return "case-variant-name"
		}
	}
	return "absent-name"
}

func newDangling(before, after ast.Schemas) []refPos {
	was := map[string]bool{}
	for _, p := range danglingRefs(before) {
		was[p.Kind+"|"+p.Pkg+"."+p.Target] = true
	}
	var out []refPos
	for _, p := range danglingRefs(after) {
		if !was[p.Kind+"|"+p.Pkg+"."+p.Target] {
			out = append(out, p)
		}
	}
	return out
}

// missingVia names the kinds of reference positions through which the missing objects are reachable.
func missingVia(schemas ast.Schemas, allowed, missing []string) string {
	miss := map[string]bool{}
	for _, m := range missing {
		miss[m] = true
	}
	kinds := map[string]bool{}
	schemaRefs(schemas, func(p refPos) {
		if miss[p.Pkg+"."+p.Target] {
			kinds[p.Kind] = true
		}
	})
	return strings.Join(sortedKeys(kinds), "+")
}

// c05RefSpellings: JSON Schema documents whose references are spelled in ways the abstract model never renders: the
// document root is itself a type and is referred to as "#" (from itself, from a definition), a root that is only a
// reference, mutual recursion between definitions, a definition referring to the root that refers back.
var c05RefSpellings = []string{
	`{"$schema":"http://json-schema.org/draft-07/schema#","type":"object","properties":{"name":{"type":"string"},"children":{"type":"array","items":{"$ref":"#"}}}}`,
	`{"$schema":"http://json-schema.org/draft-07/schema#","type":"object","properties":{"name":{"type":"string"},"leaf":{"$ref":"#/definitions/Leaf"}},"definitions":{"Leaf":{"type":"object","properties":{"parent":{"$ref":"#"}}}}}`,
	`{"$schema":"http://json-schema.org/draft-07/schema#","$ref":"#/definitions/Node","definitions":{"Node":{"type":"object","properties":{"edges":{"type":"array","items":{"$ref":"#/definitions/Node"}}}}}}`,
	`{"$schema":"http://json-schema.org/draft-07/schema#","type":"object","properties":{"a":{"$ref":"#/definitions/A"}},"definitions":{"A":{"type":"object","properties":{"b":{"$ref":"#/definitions/B"}}},"B":{"type":"object","properties":{"a":{"$ref":"#/definitions/A"},"byKey":{"type":"object","additionalProperties":{"$ref":"#/definitions/A"}}}}}}`,
	`{"$schema":"http://json-schema.org/draft-07/schema#","type":"object","properties":{"self":{"$ref":"#"},"maybe":{"oneOf":[{"$ref":"#"},{"type":"null"}]},"byKey":{"type":"object","additionalProperties":{"$ref":"#"}}}}`,
}
