package main

import (
	"github.com/grafana/cog/internal/verifhook"
)

// withSink installs a hook sink for the duration of body (single-threaded use only).
func withSink(sink func(site string, args ...any), body func()) {
	prev := verifhook.Sink
	verifhook.Sink = sink
	defer func() { verifhook.Sink = prev }()
	body()
}
