package main

import (
	"fmt"
	"reflect"
	"regexp"
	"sort"
	"strings"
)

// canon renders any Go value (descending into unexported fields, pointers, `any`) into a
// deterministic string; nil and empty slices/maps are rendered identically (the IR treats them alike).
func canon(v any) string {
	var sb strings.Builder
	canonValue(&sb, reflect.ValueOf(v), 0)
	return sb.String()
}

func canonValue(sb *strings.Builder, v reflect.Value, depth int) {
	if depth > 200 {
		sb.WriteString("<deep>")
		return
	}
	if !v.IsValid() {
		sb.WriteString("nil")
		return
	}
	switch v.Kind() {
	case reflect.Ptr:
		if v.IsNil() {
			sb.WriteString("nil")
			return
		}
		sb.WriteString("&")
		canonValue(sb, v.Elem(), depth+1)
	case reflect.Interface:
		if v.IsNil() {
			sb.WriteString("nil")
			return
		}
		e := v.Elem()
		sb.WriteString("(" + e.Type().String() + ")")
		canonValue(sb, e, depth+1)
	case reflect.Struct:
		sb.WriteString(v.Type().Name() + "{")
		for i := 0; i < v.NumField(); i++ {
			f := v.Field(i)
			if isEmptyish(f) {
				continue
			}
			sb.WriteString(v.Type().Field(i).Name + ":")
			canonValue(sb, f, depth+1)
			sb.WriteString(",")
		}
		sb.WriteString("}")
	case reflect.Slice, reflect.Array:
		if v.Len() == 0 {
			sb.WriteString("[]")
			return
		}
		sb.WriteString("[")
		for i := 0; i < v.Len(); i++ {
			canonValue(sb, v.Index(i), depth+1)
			sb.WriteString(",")
		}
		sb.WriteString("]")
	case reflect.Map:
		if v.Len() == 0 {
			sb.WriteString("[]")
			return
		}
		type kv struct {
			k string
			v reflect.Value
		}
		var kvs []kv
		it := v.MapRange()
		for it.Next() {
			var ks strings.Builder
			canonValue(&ks, it.Key(), depth+1)
			kvs = append(kvs, kv{ks.String(), it.Value()})
		}
		sort.Slice(kvs, func(i, j int) bool { return kvs[i].k < kvs[j].k })
		sb.WriteString("map[")
		for _, e := range kvs {
			sb.WriteString(e.k + "=>")
			canonValue(sb, e.v, depth+1)
			sb.WriteString(",")
		}
		sb.WriteString("]")
	case reflect.String:
		fmt.Fprintf(sb, "%q", v.String())
	case reflect.Bool:
		fmt.Fprintf(sb, "%v", v.Bool())
	case reflect.Int, reflect.Int8, reflect.Int16, reflect.Int32, reflect.Int64:
		fmt.Fprintf(sb, "%d", v.Int())
	case reflect.Uint, reflect.Uint8, reflect.Uint16, reflect.Uint32, reflect.Uint64, reflect.Uintptr:
		fmt.Fprintf(sb, "%d", v.Uint())
	case reflect.Float32, reflect.Float64:
		fmt.Fprintf(sb, "%v", v.Float())
	case reflect.Func:
		if v.IsNil() {
			sb.WriteString("nil")
		} else {
			sb.WriteString("<func>")
		}
	default:
		fmt.Fprintf(sb, "<%s>", v.Kind())
	}
}

// isEmptyish: zero scalars, nil pointers/interfaces, empty (or nil) slices and maps.
func isEmptyish(v reflect.Value) bool {
	switch v.Kind() {
	case reflect.Ptr, reflect.Interface, reflect.Func:
		return v.IsNil()
	case reflect.Slice, reflect.Map:
		return v.Len() == 0
	case reflect.Struct:
		for i := 0; i < v.NumField(); i++ {
			if !isEmptyish(v.Field(i)) {
				return false
			}
		}
		return true
	}
	return v.IsZero()
}

// firstDiff returns the path of the first structural difference between a and b ("" if none),
// with nil ≡ empty for slices and maps.
func firstDiff(a, b any) (string, string) {
	return diffValue(reflect.ValueOf(a), reflect.ValueOf(b), "", 0)
}

func diffValue(a, b reflect.Value, path string, depth int) (string, string) {
	if depth > 200 {
		return "", ""
	}
	if !a.IsValid() || !b.IsValid() {
		if a.IsValid() != b.IsValid() {
			return path, "one side is nil"
		}
		return "", ""
	}
	if a.Type() != b.Type() {
		return path, fmt.Sprintf("type %s vs %s", a.Type(), b.Type())
	}
	switch a.Kind() {
	case reflect.Ptr, reflect.Interface:
		if a.IsNil() || b.IsNil() {
			if a.IsNil() != b.IsNil() {
				// a nil pointer vs pointer to empty value: still a difference
				return path, fmt.Sprintf("nil-ness differs (%v vs %v)", a.IsNil(), b.IsNil())
			}
			return "", ""
		}
		return diffValue(a.Elem(), b.Elem(), path, depth+1)
	case reflect.Struct:
		for i := 0; i < a.NumField(); i++ {
			if p, d := diffValue(a.Field(i), b.Field(i), path+"."+a.Type().Field(i).Name, depth+1); p != "" || d != "" {
				return p, d
			}
		}
	case reflect.Slice, reflect.Array:
		if a.Len() != b.Len() {
			return path, fmt.Sprintf("length %d vs %d", a.Len(), b.Len())
		}
		for i := 0; i < a.Len(); i++ {
			if p, d := diffValue(a.Index(i), b.Index(i), fmt.Sprintf("%s[%d]", path, i), depth+1); p != "" || d != "" {
				return p, d
			}
		}
	case reflect.Map:
		if a.Len() != b.Len() {
			return path, fmt.Sprintf("map size %d vs %d", a.Len(), b.Len())
		}
		it := a.MapRange()
		for it.Next() {
			bv := b.MapIndex(it.Key())
			if !bv.IsValid() {
				return fmt.Sprintf("%s[%v]", path, it.Key()), "key missing on one side"
			}
			if p, d := diffValue(it.Value(), bv, fmt.Sprintf("%s[%v]", path, it.Key()), depth+1); p != "" || d != "" {
				return p, d
			}
		}
	default:
		var sa, sb strings.Builder
		canonValue(&sa, a, 0)
		canonValue(&sb, b, 0)
		if sa.String() != sb.String() {
			x, y := sa.String(), sb.String()
			if len(x) > 80 {
				x = x[:80]
			}
			if len(y) > 80 {
				y = y[:80]
			}
			return path, x + " vs " + y
		}
	}
	return "", ""
}

var idxRe = regexp.MustCompile(`\[[^\]]*\]`)

// normPath strips indices/keys from a reflection path so that it can serve in a finding key.
func normPath(p string) string {
	return idxRe.ReplaceAllString(p, "[]")
}

// collectRefs records the address of every pointer target, map and slice backing array (cap>0)
// reachable from v, with the path at which it was first met.
func collectRefs(v reflect.Value, path string, out map[uintptr]string, depth int) {
	if depth > 200 || !v.IsValid() {
		return
	}
	switch v.Kind() {
	case reflect.Ptr:
		if v.IsNil() {
			return
		}
		if v.Elem().Type().Size() > 0 {
			if _, ok := out[v.Pointer()]; !ok {
				out[v.Pointer()] = path
			} else {
				return // already visited (cycle or internal sharing)
			}
		}
		collectRefs(v.Elem(), path, out, depth+1)
	case reflect.Interface:
		if v.IsNil() {
			return
		}
		collectRefs(v.Elem(), path, out, depth+1)
	case reflect.Struct:
		for i := 0; i < v.NumField(); i++ {
			collectRefs(v.Field(i), path+"."+v.Type().Field(i).Name, out, depth+1)
		}
	case reflect.Slice:
		if v.IsNil() {
			return
		}
		if v.Cap() > 0 && v.Type().Elem().Size() > 0 {
			if _, ok := out[v.Pointer()]; !ok {
				out[v.Pointer()] = path
			}
		}
		for i := 0; i < v.Len(); i++ {
			collectRefs(v.Index(i), fmt.Sprintf("%s[%d]", path, i), out, depth+1)
		}
	case reflect.Array:
		for i := 0; i < v.Len(); i++ {
			collectRefs(v.Index(i), fmt.Sprintf("%s[%d]", path, i), out, depth+1)
		}
	case reflect.Map:
		if v.IsNil() {
			return
		}
		if _, ok := out[v.Pointer()]; !ok {
			out[v.Pointer()] = path
		}
		it := v.MapRange()
		for it.Next() {
			collectRefs(it.Value(), fmt.Sprintf("%s[%v]", path, it.Key()), out, depth+1)
		}
	}
}

// sharedRefs returns the (sorted, de-duplicated by normalised path) paths in `orig` whose pointer
// target / map / backing array is also reachable from `cp`.
func sharedRefs(orig, cp any) []string {
	a := map[uintptr]string{}
	b := map[uintptr]string{}
	collectRefs(reflect.ValueOf(orig), "", a, 0)
	collectRefs(reflect.ValueOf(cp), "", b, 0)
	var shared []string
	for addr, p := range a {
		if _, ok := b[addr]; ok {
			shared = append(shared, p)
		}
	}
	sort.Strings(shared)
	// keep only the topmost shared paths (what lies below a shared pointer is shared by definition)
	seen := map[string]struct{}{}
	var out []string
	for _, p := range shared {
		top := true
		for _, q := range shared {
			if q != p && len(q) < len(p) && strings.HasPrefix(p, q) && (p[len(q)] == '.' || p[len(q)] == '[') {
				top = false
				break
			}
		}
		if !top {
			continue
		}
		np := shortPath(p)
		if _, dup := seen[np]; !dup {
			seen[np] = struct{}{}
			out = append(out, np)
		}
	}
	sort.Strings(out)
	return out
}

// shortPath abbreviates a reflection path to "<first segment>…<last segment>" (indices stripped), which
// is stable across nesting depths: `.Array.ValueType.Array.ValueType.Default` → `.Array….Default`.
func shortPath(p string) string {
	p = normPath(p)
	segs := strings.Split(strings.TrimPrefix(p, "."), ".")
	if len(segs) <= 2 {
		return p
	}
	return "." + segs[0] + "…." + segs[len(segs)-1]
}
