package main

import (
	"bytes"
	"encoding/json"
	"fmt"
	"os"
	"path/filepath"
	"reflect"
	"sort"
	"strings"

	"github.com/grafana/cog/internal/codegen"
	cogyaml "github.com/grafana/cog/internal/yaml"
	jsonschema "github.com/santhosh-tekuri/jsonschema/v5"
	yamlv3 "gopkg.in/yaml.v3"
)

// C20 — config files are decoded strictly and match the published schemas.
// Differential runtime monitor: the real loaders vs. an independent validator compiled from
// schemas/*.json, over documents derived (a) from the published schemas (one per declared
// (definition,key) edge — exhaustive), (b) from the loaders' own Go types (one per yaml key edge),
// (c) both corpora × every closed mapping node × one injected unknown key, (d) empty rule entries.

func init() { register("C20", checkC20) }

type cfgKind struct {
	name   string
	schema string // file under /repo/schemas
	root   reflect.Type
	load   func(doc []byte) error
}

func c20Kinds() []cfgKind {
	return []cfgKind{
		{"compiler_passes", "compiler_passes.json", reflect.TypeOf(cogyaml.Compiler{}), func(doc []byte) error {
			_, err := cogyaml.NewCompilerLoader().Load(bytes.NewReader(doc))
			return err
		}},
		{"veneers", "veneers.json", reflect.TypeOf(cogyaml.Veneers{}), func(doc []byte) error {
			dir, _ := os.MkdirTemp(scratchDir(), "ven")
			defer os.RemoveAll(dir)
			f := filepath.Join(dir, "v.yaml")
			_ = os.WriteFile(f, doc, 0o644)
			_, err := cogyaml.NewVeneersLoader().RewriterFrom([]string{f}, struct{ Debug bool }{})
			return err
		}},
		{"pipeline", "pipeline.json", reflect.TypeOf(codegen.Pipeline{}), func(doc []byte) error {
			dir, _ := os.MkdirTemp(scratchDir(), "pipe")
			defer os.RemoveAll(dir)
			f := filepath.Join(dir, "p.yaml")
			_ = os.WriteFile(f, doc, 0o644)
			_, err := codegen.PipelineFromFile(f)
			return err
		}},
	}
}

// --- schema side -------------------------------------------------------------------------

type schemaDoc struct {
	raw  map[string]any
	defs map[string]map[string]any
	root string
}

func loadSchemaDoc(path string) (*schemaDoc, error) {
	b, err := os.ReadFile(path)
	if err != nil {
		return nil, err
	}
	var raw map[string]any
	if err := json.Unmarshal(b, &raw); err != nil {
		return nil, err
	}
	sd := &schemaDoc{raw: raw, defs: map[string]map[string]any{}}
	if defs, ok := raw["$defs"].(map[string]any); ok {
		for k, v := range defs {
			if m, ok := v.(map[string]any); ok {
				sd.defs[k] = m
			}
		}
	}
	ref, _ := raw["$ref"].(string)
	sd.root = strings.TrimPrefix(ref, "#/$defs/")
	return sd, nil
}

func refName(s map[string]any) string {
	if r, ok := s["$ref"].(string); ok {
		return strings.TrimPrefix(r, "#/$defs/")
	}
	return ""
}

// step of a document path
type step struct {
	key   string // mapping key ("" for array item)
	array bool
}

// targetDefs returns the $defs reachable from a property schema, with the extra steps needed.
func (sd *schemaDoc) targetDefs(s map[string]any) (string, []step) {
	if n := refName(s); n != "" {
		return n, nil
	}
	if t, _ := s["type"].(string); t == "array" {
		if items, ok := s["items"].(map[string]any); ok {
			n, st := sd.targetDefs(items)
			if n != "" {
				return n, append([]step{{array: true}}, st...)
			}
		}
	}
	if t, _ := s["type"].(string); t == "object" {
		if ap, ok := s["additionalProperties"].(map[string]any); ok {
			n, st := sd.targetDefs(ap)
			if n != "" {
				return n, append([]step{{key: "anykey"}}, st...)
			}
		}
	}
	return "", nil
}

func (sd *schemaDoc) minimal(s map[string]any) any {
	if n := refName(s); n != "" {
		if t, _ := sd.defs[n]["type"].(string); t == "array" {
			return []any{}
		}
		return map[string]any{}
	}
	switch t, _ := s["type"].(string); t {
	case "string":
		return "x"
	case "boolean":
		return true
	case "integer", "number":
		return 1
	case "array":
		return []any{}
	case "object":
		return map[string]any{}
	}
	return "x"
}

// pathsToDefs: BFS from the root definition; shortest document path to each reachable definition.
func (sd *schemaDoc) pathsToDefs() map[string][]step {
	paths := map[string][]step{sd.root: {}}
	queue := []string{sd.root}
	for len(queue) > 0 {
		cur := queue[0]
		queue = queue[1:]
		props, _ := sd.defs[cur]["properties"].(map[string]any)
		for _, k := range sortedKeys(props) {
			ps, _ := props[k].(map[string]any)
			n, extra := sd.targetDefs(ps)
			if n == "" {
				continue
			}
			if _, seen := paths[n]; seen {
				continue
			}
			p := append(append([]step(nil), paths[cur]...), step{key: k})
			p = append(p, extra...)
			paths[n] = p
			queue = append(queue, n)
		}
	}
	return paths
}

// wrap builds the document that holds `leaf` at the end of path.
func wrap(path []step, leaf any) any {
	cur := leaf
	for i := len(path) - 1; i >= 0; i-- {
		if path[i].array {
			cur = []any{cur}
		} else {
			cur = map[string]any{path[i].key: cur}
		}
	}
	return cur
}

func pathString(path []step) string {
	var sb strings.Builder
	for _, s := range path {
		if s.array {
			sb.WriteString("[]")
		} else {
			sb.WriteString("." + s.key)
		}
	}
	return sb.String()
}

// --- Go side -----------------------------------------------------------------------------

type goEdge struct {
	owner string
	key   string
	path  []step
	typ   reflect.Type
}

func yamlKey(f reflect.StructField) (name string, inline, skip bool) {
	if !f.IsExported() {
		return "", false, true
	}
	tag, ok := f.Tag.Lookup("yaml")
	if !ok {
		return strings.ToLower(f.Name), false, false
	}
	parts := strings.Split(tag, ",")
	for _, p := range parts[1:] {
		if p == "inline" {
			inline = true
		}
	}
	if parts[0] == "-" {
		return "", false, true
	}
	if parts[0] == "" {
		return strings.ToLower(f.Name), inline, false
	}
	return parts[0], inline, false
}

func goEdges(root reflect.Type) []goEdge {
	var out []goEdge
	seen := map[reflect.Type]bool{}
	type item struct {
		t    reflect.Type
		path []step
	}
	queue := []item{{root, nil}}
	var fieldsOf func(t reflect.Type, path []step, owner string)
	fieldsOf = func(t reflect.Type, path []step, owner string) {
		for i := 0; i < t.NumField(); i++ {
			f := t.Field(i)
			name, inline, skip := yamlKey(f)
			if skip {
				continue
			}
			ft := f.Type
			if inline {
				for ft.Kind() == reflect.Ptr {
					ft = ft.Elem()
				}
				if ft.Kind() == reflect.Struct {
					fieldsOf(ft, path, owner)
				}
				continue
			}
			p := append(append([]step(nil), path...), step{key: name})
			out = append(out, goEdge{owner: owner, key: name, path: p, typ: f.Type})
			// descend
			et := f.Type
			ep := p
			for {
				switch et.Kind() {
				case reflect.Ptr:
					et = et.Elem()
					continue
				case reflect.Slice:
					et = et.Elem()
					ep = append(append([]step(nil), ep...), step{array: true})
					continue
				case reflect.Map:
					et = et.Elem()
					ep = append(append([]step(nil), ep...), step{key: "anykey"})
					continue
				}
				break
			}
			if et.Kind() == reflect.Struct && !seen[et] {
				seen[et] = true
				queue = append(queue, item{et, ep})
			}
		}
	}
	seen[root] = true
	for len(queue) > 0 {
		it := queue[0]
		queue = queue[1:]
		fieldsOf(it.t, it.path, it.t.String())
	}
	return out
}

func goMinimal(t reflect.Type) any {
	for t.Kind() == reflect.Ptr {
		t = t.Elem()
	}
	switch t.Kind() {
	case reflect.String:
		return "x"
	case reflect.Bool:
		return true
	case reflect.Int, reflect.Int64, reflect.Int32, reflect.Float64:
		return 1
	case reflect.Slice:
		return []any{}
	case reflect.Map, reflect.Struct:
		return map[string]any{}
	}
	return "x"
}

// --- injection ---------------------------------------------------------------------------

// mappingNodes enumerates every mapping node of a decoded JSON-ish document, with its path.
func mappingNodes(v any, path string, out *[]string) {
	switch x := v.(type) {
	case map[string]any:
		*out = append(*out, path)
		for _, k := range sortedKeys(x) {
			mappingNodes(x[k], path+"/"+k, out)
		}
	case []any:
		for i, e := range x {
			mappingNodes(e, fmt.Sprintf("%s/#%d", path, i), out)
		}
	}
}

// injectAt returns a deep copy of v with key zz_unknown_key added to the mapping at path.
func injectAt(v any, path, target string) any {
	switch x := v.(type) {
	case map[string]any:
		m := map[string]any{}
		for k, e := range x {
			m[k] = injectAt(e, path+"/"+k, target)
		}
		if path == target {
			m["zz_unknown_key"] = 1
		}
		return m
	case []any:
		l := make([]any, len(x))
		for i, e := range x {
			l[i] = injectAt(e, fmt.Sprintf("%s/#%d", path, i), target)
		}
		return l
	}
	return v
}

func classifyLoaderErr(err error) string {
	if err == nil {
		return "ok"
	}
	s := err.Error()
	switch {
	case strings.Contains(s, "not found in type"):
		return "unknown-key"
	case strings.Contains(s, "empty compiler pass"), strings.Contains(s, "empty rule"):
		return "empty-rule"
	case strings.Contains(s, "cannot unmarshal"):
		return "type-mismatch"
	}
	return "semantic"
}

func unknownKeyNamed(err error, key string) bool {
	return err != nil && strings.Contains(err.Error(), "field "+key+" not found")
}

func validatorRejectsAdditional(err error, key string) bool {
	if err == nil {
		return false
	}
	s := fmt.Sprintf("%#v", err)
	return strings.Contains(s, "additionalProperties '"+key+"' not allowed")
}

func checkC20(r *Run) {
	r.Rule = "exhaustive over the finite key sets: one minimal document per (definition,key) edge of schemas/*.json and per (Go type,yaml key) edge of the loaders' structs; each run through the real loader and an independent validator compiled from the published schema; every such document × every closed mapping node × one injected unknown key; empty rule entries; the repo's own config/*.yaml with injections. distinct_nontrivial = distinct documents evaluated by both sides"
	r.Exhaustive = true
	repo := repoDir()
	injN := 0
	for _, kind := range c20Kinds() {
		schemaPath := filepath.Join(repo, "schemas", kind.schema)
		sd, err := loadSchemaDoc(schemaPath)
		if err != nil {
			r.Inconclusive("cannot read " + schemaPath + ": " + err.Error())
			continue
		}
		comp := jsonschema.NewCompiler()
		comp.Draft = jsonschema.Draft2020
		raw, _ := os.ReadFile(schemaPath)
		if err := comp.AddResource("s.json", bytes.NewReader(raw)); err != nil {
			r.Inconclusive("published schema does not load: " + err.Error())
			continue
		}
		validator, err := comp.Compile("s.json")
		if err != nil {
			r.Violation("published-schema-invalid/"+kind.name, err.Error(), nil)
			continue
		}
		validate := func(doc any) error {
			// round-trip through JSON so that numbers have the types the validator expects
			b, _ := json.Marshal(doc)
			var v any
			_ = json.Unmarshal(b, &v)
			return validator.Validate(v)
		}
		decorate := func(doc any) any {
			// veneers need a package statement to get past the first semantic check
			if kind.name == "veneers" {
				if m, ok := doc.(map[string]any); ok {
					if _, has := m["package"]; !has {
						m["package"] = "pkg"
					}
				}
			}
			return doc
		}
		var corpus []any

		// (a) schema-declared edges
		paths := sd.pathsToDefs()
		edges := 0
		for _, def := range sortedKeys(paths) {
			props, _ := sd.defs[def]["properties"].(map[string]any)
			for _, k := range sortedKeys(props) {
				ps, _ := props[k].(map[string]any)
				doc := decorate(wrap(paths[def], map[string]any{k: sd.minimal(ps)}))
				if _, ok := doc.(map[string]any); !ok {
					continue
				}
				edges++
				yb, _ := json.Marshal(doc)
				verr := validate(doc)
				lerr := kind.load(yb)
				r.Eval()
				r.Distinct(kind.name + string(yb))
				if edges <= 2 {
					r.Sample(map[string]any{"kind": kind.name, "edge": def + "." + k, "doc": string(yb)})
				}
				if verr != nil {
					if os.Getenv("VERIF_DEBUG") != "" {
						fmt.Printf("DEBUG discarded: %s verr=%#v\n", yb, verr)
					}
					r.Count("schema_edge_docs_rejected_by_validator(discarded)", 1)
					continue
				}
				corpus = append(corpus, doc)
				switch classifyLoaderErr(lerr) {
				case "unknown-key":
					r.Violation("schema-key-rejected-by-loader/"+kind.name+"/"+def+"."+k, fmt.Sprintf("document %s validates against schemas/%s but the loader says: %v", yb, kind.schema, lerr), map[string]any{"kind": kind.name, "doc": string(yb)})
				case "empty-rule":
					r.Violation("declared-rule-not-recognised/"+kind.name+"/"+def+"."+k, fmt.Sprintf("document %s: %v", yb, lerr), map[string]any{"kind": kind.name, "doc": string(yb)})
				case "type-mismatch":
					r.Violation("schema-type-rejected-by-loader/"+kind.name+"/"+def+"."+k, fmt.Sprintf("document %s validates but: %v", yb, lerr), map[string]any{"kind": kind.name, "doc": string(yb)})
				case "semantic":
					r.Count("loader_semantic_errors(ignored)", 1)
				}
			}
		}
		r.Count("schema_edges/"+kind.name, edges)

		// (b) loader-declared edges
		ge := goEdges(kind.root)
		for _, e := range ge {
			doc := decorate(wrap(e.path[:len(e.path)-1], map[string]any{e.key: goMinimal(e.typ)}))
			yb, _ := json.Marshal(doc)
			verr := validate(doc)
			lerr := kind.load(yb)
			r.Eval()
			r.Distinct(kind.name + string(yb))
			lc := classifyLoaderErr(lerr)
			if lc == "unknown-key" || lc == "type-mismatch" {
				// the reflection model of yaml.v3 naming was wrong for this field: not a verdict
				r.CaseInconclusive(fmt.Sprintf("go-edge %s.%s not decodable as modelled: %v", e.owner, e.key, lerr))
				continue
			}
			if validatorRejectsAdditional(verr, e.key) {
				r.Violation("loader-key-missing-from-schema/"+kind.name+"/"+e.owner+"."+e.key, fmt.Sprintf("the loader accepts key %q at %s (document %s) but schemas/%s rejects it: %v", e.key, pathString(e.path), yb, kind.schema, verr), map[string]any{"kind": kind.name, "doc": string(yb)})
				continue
			}
			if verr == nil {
				corpus = append(corpus, doc)
			}
		}
		r.Count("loader_edges/"+kind.name, len(ge))

		// repo's own config files (pipelines)
		if kind.name == "pipeline" {
			files, _ := filepath.Glob(filepath.Join(repo, "config", "*.yaml"))
			for _, f := range files {
				b, err := os.ReadFile(f)
				if err != nil {
					continue
				}
				var doc any
				if err := yamlv3.Unmarshal(b, &doc); err != nil {
					continue
				}
				doc = normalizeYAML(doc)
				if lerr := kind.load(b); classifyLoaderErr(lerr) == "unknown-key" {
					r.Violation("repo-config-rejected/"+filepath.Base(f), lerr.Error(), nil)
				}
				if verr := validate(doc); verr != nil {
					r.Violation("repo-config-fails-published-schema/"+filepath.Base(f), fmt.Sprintf("%v", verr), nil)
				} else {
					corpus = append(corpus, doc)
				}
				r.Eval()
			}
		}

		// (c) injection at every mapping node of every corpus document
		closed := 0
		for _, doc := range corpus {
			var nodes []string
			mappingNodes(doc, "", &nodes)
			for _, n := range nodes {
				inj := injectAt(doc, "", n)
				yb, _ := json.Marshal(inj)
				verr := validate(inj)
				lerr := kind.load(yb)
				r.Eval()
				injN++
				vRej := validatorRejectsAdditional(verr, "zz_unknown_key")
				lRej := unknownKeyNamed(lerr, "zz_unknown_key")
				nodeKey := normPathSlash(n)
				switch {
				case vRej && lRej:
					closed++
				case !vRej && !lRej && verr == nil:
					// free-form map on both sides (parameters, templates_data, hints, …)
					r.Count("free_form_nodes", 1)
				case vRej && !lRej:
					if lerr != nil && classifyLoaderErr(lerr) != "unknown-key" {
						// the loader failed earlier for another reason; strictness not observable here
						r.Count("injection_masked_by_other_loader_error", 1)
						continue
					}
					r.Violation("unknown-key-accepted-by-loader/"+kind.name+"/"+nodeKey, fmt.Sprintf("unknown key injected at %s is ignored by the loader (schema rejects it); document: %s; loader error: %v", n, yb, lerr), map[string]any{"kind": kind.name, "doc": string(yb)})
				case !vRej && lRej:
					r.Violation("unknown-key-accepted-by-schema/"+kind.name+"/"+nodeKey, fmt.Sprintf("unknown key injected at %s is rejected by the loader but schemas/%s accepts it; document: %s", n, kind.schema, yb), map[string]any{"kind": kind.name, "doc": string(yb)})
				default:
					r.Count("injection_other", 1)
					if os.Getenv("VERIF_DEBUG") != "" {
						fmt.Printf("DEBUG other: %s node=%s verr=%v lerr=%v\n", yb, n, verr, lerr)
					}
				}
			}
		}
		r.Count("closed_mapping_nodes_confirmed/"+kind.name, closed)

		// (d) empty rule entries
		var empties []map[string]any
		switch kind.name {
		case "compiler_passes":
			empties = []map[string]any{{"passes": []any{map[string]any{}}}}
		case "veneers":
			empties = []map[string]any{
				{"package": "pkg", "builders": []any{map[string]any{}}},
				{"package": "pkg", "options": []any{map[string]any{}}},
				{"language": "go", "package": "pkg", "options": []any{map[string]any{}}, "builders": []any{}},
			}
		}
		for _, d := range empties {
			yb, _ := json.Marshal(d)
			lerr := kind.load(yb)
			r.Eval()
			if lerr == nil {
				r.Violation("empty-rule-accepted/"+kind.name, "document "+string(yb)+" loads without error", map[string]any{"kind": kind.name, "doc": string(yb)})
			}
		}
	}
	r.Count("injections", injN)
	r.Assumptions = append(r.Assumptions, "independent validator: santhosh-tekuri/jsonschema compiled from schemas/*.json (draft 2020-12)", "loader 'unknown key' verdict recognised by yaml.v3's message `field <k> not found in type`", "semantic loader errors (missing values in minimal documents) are not verdicts about keys and are counted, not judged")
}

func normPathSlash(p string) string {
	parts := strings.Split(p, "/")
	for i, s := range parts {
		if strings.HasPrefix(s, "#") {
			parts[i] = "#"
		}
	}
	return strings.Join(parts, "/")
}

func normalizeYAML(v any) any {
	switch x := v.(type) {
	case map[string]any:
		m := map[string]any{}
		for k, e := range x {
			m[k] = normalizeYAML(e)
		}
		return m
	case map[any]any:
		m := map[string]any{}
		for k, e := range x {
			m[fmt.Sprint(k)] = normalizeYAML(e)
		}
		return m
	case []any:
		l := make([]any, len(x))
		for i, e := range x {
			l[i] = normalizeYAML(e)
		}
		return l
	}
	return v
}

var _ = sort.Strings
