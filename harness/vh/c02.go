package main

import (
	"bufio"
	"bytes"
	"encoding/json"
	"fmt"
	"os"
	"os/exec"
	"path/filepath"
	"regexp"
	"sort"
	"strings"
	"sync"
)

// C02 — a successful run only emits well-formed code; unsupported constructs are errors.
// Every successful pipeline run (AM schemas in 3 formats × Go flag combinations × all languages) is
// followed by: `go build ./...` of the generated Go, byte-compile + import of every Python module,
// `javac` against the real Jackson jars, and a token-aware scan of every file for cog's own
// placeholder texts. A run that returns an error is the good outcome for an inexpressible construct.

func init() { register("C02", checkC02) }

var jacksonDir = "/opt/veriftools/tlapm/lib/tlapm/backends/Isabelle/contrib/scala-3.3.4/lib"

// stripCommentsAndStrings blanks comments and string literals (C-like languages and Python).
func stripCommentsAndStrings(src string, lang string) string {
	var out strings.Builder
	i := 0
	n := len(src)
	for i < n {
		c := src[i]
		switch {
		case lang != "python" && c == '/' && i+1 < n && src[i+1] == '/':
			for i < n && src[i] != '\n' {
				i++
			}
		case lang != "python" && c == '/' && i+1 < n && src[i+1] == '*':
			// keep the marker of cog's own "/* unhandled … */" placeholders visible
			j := strings.Index(src[i+2:], "*/")
			body := ""
			if j >= 0 {
				body = src[i+2 : i+2+j]
				i = i + 2 + j + 2
			} else {
				i = n
			}
			if strings.Contains(body, "unhandled") {
				out.WriteString(" __COG_UNHANDLED_COMMENT__ ")
			}
		case (lang == "python" || lang == "php") && c == '#':
			for i < n && src[i] != '\n' {
				i++
			}
		case lang == "python" && (strings.HasPrefix(src[i:], `"""`) || strings.HasPrefix(src[i:], `'''`)):
			q := src[i : i+3]
			j := strings.Index(src[i+3:], q)
			if j < 0 {
				i = n
			} else {
				i = i + 3 + j + 3
			}
			out.WriteString(`""`)
		case c == '"' || c == '\'' || (c == '`' && (lang == "go" || lang == "typescript")):
			q := c
			i++
			for i < n && src[i] != q {
				if src[i] == '\\' && q != '`' {
					i++
				}
				if src[i] == '\n' && q != '`' {
					break
				}
				i++
			}
			i++
			out.WriteString(`""`)
		default:
			out.WriteByte(c)
			i++
		}
	}
	return out.String()
}

var bareUnknownRe = regexp.MustCompile(`(^|[^A-Za-z0-9_$.])unknown($|[^A-Za-z0-9_(:=])`)

// placeholderTexts: what cog's jennies emit for unknown / unimplemented cases.
var placeholderTexts = []string{
	"unhandled type def kind", "unhandled object of type", "found an unimplemented", "unsupported default value case", "__COG_UNHANDLED_COMMENT__", "could not convert",
}

func scanPlaceholders(path string, data []byte) []string {
	lang := ""
	switch filepath.Ext(path) {
	case ".go":
		lang = "go"
	case ".java":
		lang = "java"
	case ".ts":
		lang = "typescript"
	case ".php":
		lang = "php"
	case ".py":
		lang = "python"
	default:
		return nil
	}
	raw := string(data)
	var found []string
	// literal placeholder texts count wherever they are (cog emits some of them inside string literals)
	for _, p := range placeholderTexts[:4] {
		if strings.Contains(raw, p) {
			found = append(found, p)
		}
	}
	code := stripCommentsAndStrings(raw, lang)
	if strings.Contains(code, "__COG_UNHANDLED_COMMENT__") {
		found = append(found, "/* unhandled … */")
	}
	if lang != "typescript" && bareUnknownRe.MatchString(code) { // `unknown` is a legitimate TypeScript type
		found = append(found, "unknown (bare identifier)")
	}
	return found
}

var goDiagRe = regexp.MustCompile(`^(\S+?)/([^/\s]+\.go):(\d+):(\d+): (.*)$`)
var identAfterDotRe = regexp.MustCompile(`\b(resource|other|builder|input)\.[A-Za-z0-9_\.\[\]\(\)\*&]+`)
var typeNameRe = regexp.MustCompile(`\b[A-Z][A-Za-z0-9]*(Or[A-Z][A-Za-z0-9]*)+\b`)

func maskGoDiag(msg string) string {
	msg = identAfterDotRe.ReplaceAllString(msg, "$1.X")
	// `(*resource.Items)[i]` (optional member) and `resource.Items[i]` come from the same template line
	msg = regexp.MustCompile(`\(\*(resource|other|builder|input)\.X`).ReplaceAllString(msg, "$1.X")
	msg = typeNameRe.ReplaceAllString(msg, "UnionType")
	msg = quotedRe.ReplaceAllString(msg, "«s»")
	msg = digitsRe.ReplaceAllString(msg, "N")
	msg = regexp.MustCompile(`\*?(pk\.)?\b(Alpha|Bravo|Charlie|Delta|Echo|Foxtrot|Golf|Hotel|India|Juliet|Kilo|Lima|Circle|Square|Tri|Shape|Pk)[A-Za-z0-9]*\b`).ReplaceAllString(msg, "T")
	msg = regexp.MustCompile(`\b(title|count|ratio|enabled|items|labels|child|mode|amount|extra|level|limit|when|payload|link|opts|size|tags|Title|Count|Ratio|Enabled|Items|Labels|Child|Mode|Amount|Extra|Level|Limit|When|Payload|Link|Opts|Size|Tags)[A-Za-z0-9]*\b`).ReplaceAllString(msg, "f")
	msg = regexp.MustCompile(`&[a-z][A-Za-z0-9]*`).ReplaceAllString(msg, "&f")
	msg = regexp.MustCompile(`undefined: New[A-Za-z0-9]+`).ReplaceAllString(msg, "undefined: NewT")
	msg = regexp.MustCompile(`method (Bool|String|FloatN|IntN|UintN|Float64|Int64)\)`).ReplaceAllString(msg, "method <ScalarBranch>)")
	msg = regexp.MustCompile(`as \[\](bool|intN|uintN|floatN|string) value`).ReplaceAllString(msg, "as []<scalar> value")
	msg = regexp.MustCompile(`(N|true|false) \(untyped (int|bool|float) constant\)`).ReplaceAllString(msg, "<literal> (untyped constant)")
	if len(msg) > 110 {
		msg = msg[:110]
	}
	return msg
}

type c02Run struct {
	id       string
	format   string
	schema   string
	flags    map[string]any
	files    genFiles
	builders bool
}

func checkC02(r *Run) {
	n := r.n(8, 120)
	r.Rule = "AM schemas (incl. bytes, object-level nullable unions, list/struct defaults) in 3 formats × covering rows of the Go flags (json marshaller, strict unmarshaller, equal, validate, any_as_interface, skip_runtime) and types/builders/converters/api_reference toggles, all seven languages; after every successful run: go build of the Go tree, py_compile+import of every Python module, javac against Jackson 2.15, placeholder scan of every file. distinct_nontrivial = distinct (schema, flag row) runs that succeeded and were compiled"
	root, _ := os.MkdirTemp(scratchDir(), "c02-")
	defer os.RemoveAll(root)
	// covering rows for the six Go flags (every pair of values appears)
	rows := [][6]bool{
		{true, true, true, true, false, false},
		{false, false, false, false, true, true},
		{true, false, true, false, true, false},
		{false, true, false, true, false, true},
		{true, true, false, false, true, true},
		{false, false, true, true, false, false},
		{true, false, false, true, true, false},
		{false, true, true, false, false, true},
	}
	flagNames := []string{"generate_json_marshaller", "generate_strict_unmarshaller", "generate_equal", "generate_validate", "any_as_interface", "skip_runtime"}
	var runs []*c02Run
	errClasses := map[string]int{}
	idx := 0
	for i := 0; i < n; i++ {
		for fi, format := range []string{"jsonschema", "openapi", "cue"} {
			rng := newRNG("C02", r.Seed, i, format)
			caps := capsFor(format)
			caps.Bytes = format != "jsonschema"
			caps.ObjectLevelNullableUnion = true
			profile := []string{"general", "defaults", "constraints"}[(i+fi)%3]
			ams := []*amSchema{genAM(rng, caps, "pk", profile)}
			if i == 0 {
				ams = append(ams, aimedAMs(caps)...)
				ams = append(ams, c02Extras(caps)...)
			}
			for ai, am := range ams {
				nRows := r.n(2, 4)
				for k := 0; k < nRows; k++ {
					row := rows[(i+k*3+ai)%len(rows)]
					if ai > 0 && k == 0 {
						row = rows[0] // every fixed schema is generated at least once with builders and converters
					}
					id := fmt.Sprintf("r%04d", idx)
					idx++
					dir := filepath.Join(root, "in", id)
					in, txt := materializeAM(dir, am, format)
					goFlags := map[string]any{"package_root": "example.com/gen/" + id}
					for fj, name := range flagNames {
						goFlags[name] = row[fj]
					}
					builders := !row[5] && (k%2 == 0) // builders need the runtime
					cfg := pipeCfg{Inputs: []pipeInput{in}, Types: true, Builders: builders, Converters: builders && k%4 == 0, APIReference: k%3 == 0, OutDir: filepath.Join(root, "out", id, "%l")}
					cfg.Langs = []langCfg{
						{Name: "go", Flags: goFlags},
						{Name: "python", Flags: map[string]any{"generate_json_marshaller": row[0]}},
						{Name: "java", Flags: map[string]any{"package_path": "gen." + id, "generate_json_marshaller": row[0]}},
						{Name: "typescript", Flags: map[string]any{"enums_as_union_types": row[4]}},
						{Name: "php", Flags: map[string]any{"namespace_root": "Gen", "generate_json_marshaller": row[0]}},
						{Name: "jsonschema"}, {Name: "openapi"},
					}
					res := runPipelineYAML(dir, "pipeline.yaml", cfg.YAML(), filepath.Join(root, "out", id))
					r.Eval()
					if res.Panic != nil {
						r.Count("run_panics(C04's business)", 1)
						continue
					}
					if res.Err != nil {
						errClasses[pipelineErrClass(res.Err)]++
						r.Count("runs_returning_an_error(good outcome for inexpressible constructs)", 1)
						continue
					}
					r.Count("runs_succeeded", 1)
					r.Distinct(id + string(txt) + fmt.Sprint(row))
					runs = append(runs, &c02Run{id: id, format: format, schema: string(txt), flags: goFlags, files: res.Files, builders: builders})
				}
			}
		}
	}
	r.Extra["returned_error_classes"] = errClasses
	byID := map[string]*c02Run{}
	for _, ru := range runs {
		byID[ru.id] = ru
	}
	replayOf := func(ru *c02Run) map[string]any {
		return map[string]any{"format": ru.format, "schema": ru.schema, "go_flags": ru.flags, "builders": ru.builders}
	}

	// ---- placeholder scan (all languages)
	scanned := 0
	for _, ru := range runs {
		for _, p := range ru.files.paths() {
			scanned++
			for _, ph := range scanPlaceholders(p, ru.files[p]) {
				lang := strings.SplitN(p, "/", 2)[0]
				r.Violation("placeholder/"+lang+"/"+ph, fmt.Sprintf("generated file %s contains cog's placeholder text %q although the run reported success", p, ph), replayOf(ru))
			}
		}
	}
	r.Count("files_scanned", scanned)

	// ---- Go: one module, go build ./...
	gomod := filepath.Join(root, "gomod")
	_ = os.MkdirAll(gomod, 0o755)
	_ = os.WriteFile(filepath.Join(gomod, "go.mod"), []byte("module example.com/gen\n\ngo 1.21\n"), 0o644)
	for _, ru := range runs {
		_ = ru.files.under("go").writeTo(filepath.Join(gomod, ru.id))
		if _, hasRuntime := ru.files["go/cog/builder.go"]; hasRuntime {
			// converters call cog.Dump, which cog's own runtime jenny does not emit (foundation-sdk supplies
			// it through extra_files_templates): the harness supplies the same helper the same way
			_ = os.WriteFile(filepath.Join(gomod, ru.id, "cog", "dump_supplied_by_harness.go"), cogDumpHelper(), 0o644)
		}
	}
	cmd := exec.Command("go", "build", "-gcflags=-e", "./...") // -e: no cap on the number of reported errors
	cmd.Dir = gomod
	cmd.Env = append(os.Environ(), "GOFLAGS=-mod=mod", "GOPROXY=off", "GOSUMDB=off", "GOTOOLCHAIN=local", "GOWORK=off")
	out, err := cmd.CombinedOutput()
	r.Count("go_packages_built", len(runs))
	if err != nil {
		seen := map[string]bool{}
		for _, line := range strings.Split(string(out), "\n") {
			m := goDiagRe.FindStringSubmatch(strings.TrimSpace(line))
			if m == nil {
				continue
			}
			id := strings.SplitN(m[1], "/", 2)[0]
			ru := byID[id]
			if ru == nil {
				continue
			}
			if strings.Contains(m[5], "too many errors") {
				continue
			}
			key := "go-compile/" + maskGoDiag(m[5])
			if strings.Contains(m[5], "redeclared") || strings.Contains(m[5], "duplicate field") || strings.Contains(m[5], "other declaration of") || strings.Contains(m[5], "already declared") {
				// name clashes have many unrelated causes: keep the source format apart
				key += "/" + ru.format
			}
			if seen[key+id] {
				continue
			}
			seen[key+id] = true
			r.Violation(key, fmt.Sprintf("the run succeeded but the generated Go package does not type-check: %s/%s:%s: %s (flags %v)", m[1], m[2], m[3], m[5], ru.flags), replayOf(ru))
		}
		if len(seen) == 0 {
			r.Inconclusive("go build failed without attributable diagnostics: " + truncate(string(out), 600))
		}
	}

	// ---- Python: byte-compile and import every module
	pyroot := filepath.Join(root, "pyroot")
	for _, ru := range runs {
		_ = ru.files.under("python").writeTo(filepath.Join(pyroot, ru.id))
	}
	script := `
import importlib, os, sys, py_compile, traceback
root = sys.argv[1]
sys.path.insert(0, root)
for sid in sorted(os.listdir(root)):
    for dirpath, _, files in os.walk(os.path.join(root, sid)):
        for f in sorted(files):
            if not f.endswith('.py'): continue
            full = os.path.join(dirpath, f)
            rel = os.path.relpath(full, root)
            try:
                compile(open(full, encoding='utf-8').read(), full, 'exec')
            except Exception as exc:
                print("PYERR\t%s\tcompile\t%s: %s" % (rel, type(exc).__name__, str(exc).replace("\n", " ")[:300]))
                continue
            mod = rel[:-3].replace(os.sep, '.')
            if mod.endswith('.__init__'): mod = mod[:-9]
            try:
                importlib.import_module(mod)
                print("PYOK\t%s" % rel)
            except BaseException as exc:
                print("PYERR\t%s\timport\t%s: %s" % (rel, type(exc).__name__, str(exc).replace("\n", " ")[:300]))
`
	_ = os.WriteFile(filepath.Join(root, "pycheck.py"), []byte(script), 0o644)
	pcmd := exec.Command("python3", filepath.Join(root, "pycheck.py"), pyroot)
	pcmd.Env = append(os.Environ(), "PYTHONDONTWRITEBYTECODE=1")
	pout, _ := pcmd.CombinedOutput()
	pyOK := 0
	for _, line := range strings.Split(string(pout), "\n") {
		parts := strings.Split(line, "\t")
		switch {
		case len(parts) >= 2 && parts[0] == "PYOK":
			pyOK++
		case len(parts) >= 4 && parts[0] == "PYERR":
			id := strings.SplitN(parts[1], string(os.PathSeparator), 2)[0]
			ru := byID[id]
			if ru == nil {
				continue
			}
			r.Violation("python-"+parts[2]+"/"+maskGoDiag(parts[3]), fmt.Sprintf("the run succeeded but generated Python module %s fails to %s: %s", parts[1], parts[2], parts[3]), replayOf(ru))
		}
	}
	r.Count("python_modules_imported", pyOK)
	if pyOK == 0 {
		r.Inconclusive("no Python module could be imported: " + truncate(string(pout), 400))
	}

	// ---- TypeScript: every tree is transformed, parsed, linked and evaluated by Node (>= 22.13)
	if node := findNode22(); node == "" {
		r.CaseInconclusive("no Node >= 22.13 found: TypeScript is only scanned for placeholders")
	} else {
		tsroot := filepath.Join(root, "tsroot")
		var tsIn bytes.Buffer
		nTrees := 0
		for _, ru := range runs {
			tf := ru.files.under("typescript")
			if len(tf) == 0 {
				continue
			}
			_ = tf.writeTo(filepath.Join(tsroot, ru.id))
			b, _ := json.Marshal(map[string]string{"id": ru.id, "root": filepath.Join(tsroot, ru.id)})
			tsIn.Write(b)
			tsIn.WriteByte('\n')
			nTrees++
		}
		cmd := exec.Command(node, "--experimental-vm-modules", "--no-warnings", filepath.Join(verifDir(), "ts", "driver.mjs"))
		cmd.Stdin = &tsIn
		var tsErr bytes.Buffer
		cmd.Stderr = &tsErr
		tsOut, terr := cmd.Output()
		if terr != nil {
			r.CaseInconclusive("TypeScript driver failed: " + terr.Error() + " " + truncate(tsErr.String(), 300))
		}
		tsOK, tsDefaults := 0, 0
		sc := bufio.NewScanner(bytes.NewReader(tsOut))
		sc.Buffer(make([]byte, 1<<20), 1<<26)
		for sc.Scan() {
			var tr struct {
				ID    string `json:"id"`
				Fatal string `json:"fatal"`
				Files []struct {
					File, Stage, Error string
				} `json:"files"`
				Defaults map[string]json.RawMessage `json:"defaults"`
			}
			if json.Unmarshal(sc.Bytes(), &tr) != nil || tr.ID == "" {
				continue
			}
			ru := byID[tr.ID]
			if ru == nil {
				continue
			}
			if tr.Fatal != "" {
				r.CaseInconclusive("TypeScript driver: " + tr.Fatal)
				continue
			}
			if len(tr.Files) == 0 {
				tsOK++
			}
			seen := map[string]bool{}
			for _, f := range tr.Files {
				key := "typescript-load/" + f.Stage + "/" + maskGoDiag(f.Error)
				if f.Stage == "typescript-syntax" {
					// the parser's message says little: a reserved word used as a parameter name is the usual cause
					if m := tsKeywordParamRe.FindStringSubmatch(string(ru.files["typescript/"+f.File])); m != nil {
						key = "typescript-load/reserved-word-used-as-parameter/" + m[1]
					}
				}
				if seen[key] {
					continue
				}
				seen[key] = true
				r.Violation(key, fmt.Sprintf("the run succeeded but generated TypeScript does not load: %s (%s): %s", f.File, f.Stage, f.Error), replayOf(ru))
			}
			for name, raw := range tr.Defaults {
				tsDefaults++
				if bytes.Contains(raw, []byte(`"__error"`)) {
					key := "typescript-load/default-function-throws/" + maskGoDiag(string(raw))
					if !seen[key] {
						seen[key] = true
						r.Violation(key, fmt.Sprintf("the run succeeded but calling %s of the generated TypeScript throws: %s", name, raw), replayOf(ru))
					}
				}
			}
		}
		r.Count("typescript_trees", nTrees)
		r.Count("typescript_trees_loaded_ok", tsOK)
		r.Count("typescript_default_functions_called", tsDefaults)
	}

	// ---- Java: javac against the Jackson jars
	jars, _ := filepath.Glob(filepath.Join(jacksonDir, "jackson-*.jar"))
	if len(jars) == 0 {
		r.CaseInconclusive("Jackson jars not found: Java is only scanned for placeholders")
	} else {
		jroot := filepath.Join(root, "javaroot")
		var sources []string
		for _, ru := range runs {
			jf := ru.files.under("java")
			_ = jf.writeTo(filepath.Join(jroot, ru.id))
			for p := range jf {
				if strings.HasSuffix(p, ".java") {
					sources = append(sources, filepath.Join(jroot, ru.id, p))
				}
			}
		}
		sort.Strings(sources)
		// one javac per run keeps diagnostics attributable and avoids the 100-error cap hiding runs
		jOK := 0
		type jres struct {
			out []byte
			err error
			ran bool
		}
		results := make([]jres, len(runs))
		sem := make(chan struct{}, 12)
		var jwg sync.WaitGroup
		for ri, ru := range runs {
			var src []string
			prefix := filepath.Join(jroot, ru.id) + string(os.PathSeparator)
			for _, s := range sources {
				if strings.HasPrefix(s, prefix) {
					src = append(src, s)
				}
			}
			if len(src) == 0 {
				continue
			}
			args := append([]string{"-proc:none", "-nowarn", "-Xmaxerrs", "30", "-cp", strings.Join(jars, ":"), "-d", filepath.Join(root, "javaout", ru.id)}, src...)
			jwg.Add(1)
			go func(ri int, args []string) {
				defer jwg.Done()
				sem <- struct{}{}
				defer func() { <-sem }()
				out, err := exec.Command("javac", args...).CombinedOutput()
				results[ri] = jres{out, err, true}
			}(ri, args)
		}
		jwg.Wait()
		for ri, ru := range runs {
			if !results[ri].ran {
				continue
			}
			jout, jerr := results[ri].out, results[ri].err
			if jerr == nil {
				jOK++
				continue
			}
			seen := map[string]bool{}
			jlines := strings.Split(string(jout), "\n")
			for li, line := range jlines {
				i := strings.Index(line, ": error: ")
				if i < 0 {
					continue
				}
				msg := line[i+9:]
				if strings.Contains(msg, "cannot find symbol") {
					for _, nl := range jlines[li+1 : min(len(jlines), li+5)] {
						if t := strings.TrimSpace(nl); strings.HasPrefix(t, "symbol:") {
							f := strings.Fields(t)
							if len(f) >= 2 {
								msg += " (" + f[1] + ")"
							}
						}
					}
				}
				key := "java-compile/" + maskGoDiag(msg)
				if (strings.Contains(msg, "expected") && !strings.Contains(msg, "enum constant expected")) || strings.Contains(msg, "illegal start") || strings.Contains(msg, "not a statement") {
					// syntax errors say little by themselves: the offending source line names the construct
					if li+1 < len(jlines) {
						src := strings.Join(strings.Fields(jlines[li+1]), " ")
						kw := ""
						for _, tok := range regexp.MustCompile(`[A-Za-z_]+`).FindAllString(src, -1) {
							for _, w := range []string{"true", "false", "null", "class", "import", "new", "default", "int", "public", "package", "static", "void"} {
								// a keyword right after a type name / `this.` / as parameter name: used as an identifier
								if tok == w && regexp.MustCompile(`(String|Long|Boolean|Double|Integer|Builder|\.|\() ?`+w+`\b|\b`+w+` ?(=|;|\(String|\(Long)`).MatchString(src) {
									kw = w
								}
							}
						}
						if kw != "" {
							key = "java-compile/keyword-used-as-identifier/" + kw
						} else {
							key += " @ " + truncate(src, 60)
						}
					}
				}
				if seen[key] {
					continue
				}
				seen[key] = true
				r.Violation(key, fmt.Sprintf("the run succeeded but generated Java does not compile: %s", strings.TrimPrefix(line, jroot)), replayOf(ru))
			}
		}
		r.Count("java_trees_compiled_ok", jOK)
		r.Count("java_trees", len(runs))
	}
	if len(runs) == 0 {
		r.Inconclusive("no pipeline run succeeded")
	}
	r.Sample(map[string]any{"flag_rows": len(rows), "languages": 7})
	r.Assumptions = append(r.Assumptions, "TypeScript is not type-checked (no tsc in the image): every file is transformed to JavaScript, parsed, linked within its tree, evaluated and its default* functions called under Node 22; PHP is not compiled (no php in the image): placeholder scan only", "Java is compiled against the Jackson 2.15.1 jars found in the image")
}

// cogDumpHelper extracts the Dump helper from the runtime snapshot committed in the repository
// (testdata/generated/cog/runtime.go), as foundation-sdk supplies it to generated converters.
func cogDumpHelper() []byte {
	raw, err := os.ReadFile(filepath.Join(repoDir(), "testdata", "generated", "cog", "runtime.go"))
	if err != nil {
		return []byte("package cog\n")
	}
	src := string(raw)
	i := strings.Index(src, "func Dump(")
	if i < 0 {
		return []byte("package cog\n")
	}
	return []byte("package cog\n\nimport (\n\t\"fmt\"\n\t\"reflect\"\n\t\"strings\"\n)\n\n" + src[i:])
}

// c02Extras: shapes aimed at the text generators only (no documents are needed in C02).
func c02Extras(caps amCaps) []*amSchema {
	intW := pickWidthDefault(caps.IntWidths, "int64")
	mk := func(objs ...*amObject) *amSchema {
		return &amSchema{Pkg: "pk", Objs: objs, Tags: map[string]int{"aimed": 1}}
	}
	var out []*amSchema
	// a union one of whose branches is a reference to another union sharing a branch type with it
	out = append(out, mk(
		&amObject{"NumOrStr", un(tyw("int", intW), ty("string"))},
		&amObject{"BoolOrStr", un(ty("bool"), ty("string"))},
		&amObject{"Holder", st(
			fld("value", true, un(rf("NumOrStr"), ty("string"), ty("bool"))),
			fld("other", false, un(rf("NumOrStr"), rf("BoolOrStr"))),
			fld("plain", false, rf("NumOrStr")),
		)},
	))
	// member names that are keywords, or become keywords once sanitised, in one of the target languages
	var fields []*amField
	for i, n := range []string{"_from", "_class", "$in", "type", "func", "range", "_import", "global", "lambda", "public", "int", "default", "new", "function", "None", "True", "len", "list"} {
		t := ty("string")
		if i%3 == 1 {
			t = tyw("int", intW)
		}
		fields = append(fields, fld(n, i%2 == 0, t))
	}
	out = append(out, mk(&amObject{"Idents", st(fields...)}))
	// names that need sanitising before they can be identifiers at all
	out = append(out, mk(&amObject{"Odd", st(fld("a-b", true, ty("string")), fld("9lives", false, ty("string")), fld("with space", false, ty("bool")), fld("dotted.name", false, ty("string")))}))
	return out
}

// findNode22 looks for a Node.js that offers module.stripTypeScriptTypes (>= 22.13): PATH first, then nvm's directory.
func findNode22() string {
	var cands []string
	if p, err := exec.LookPath("node"); err == nil {
		cands = append(cands, p)
	}
	more, _ := filepath.Glob("/root/.nvm/versions/node/v2[2-9]*/bin/node")
	sort.Sort(sort.Reverse(sort.StringSlice(more)))
	cands = append(cands, more...)
	for _, c := range cands {
		out, err := exec.Command(c, "-e", "process.stdout.write(String(typeof require('node:module').stripTypeScriptTypes))").Output()
		if err == nil && strings.TrimSpace(string(out)) == "function" {
			return c
		}
	}
	return ""
}

var tsKeywordParamRe = regexp.MustCompile(`[(,]\s*(in|import|class|new|default|function|typeof|delete|var|void|with|export|return|switch|this|throw|try|catch|finally|for|if|else|do|while|break|continue|case|const|enum|extends|super|null|true|false|instanceof)\s*[:?]`)
