package main

import (
	"fmt"
	"reflect"
	"sort"
	"strings"

	"github.com/grafana/cog/internal/ast"
	"github.com/grafana/cog/internal/ast/compiler"
	"github.com/grafana/cog/internal/orderedmap"
)

// C18 — IR copies are faithful and independent.
// (i) direct: DeepCopy of every IR node type on reflectively filled values (every declared field
//     populated in at least one case — measured), compared structurally and walked for shared
//     pointers / maps / backing arrays; then the copy is scribbled over and the original re-hashed.
// (ii) hook sites: every copy cog makes for itself (Passes.Process) in irgen workloads.

func init() { register("C18", checkC18) }

type filler struct {
	rng       *RNG
	populated map[string]int // "Type.Field" -> number of cases with a non-empty value
	seenField map[string]struct{}
}

var (
	typeOfAny     = reflect.TypeOf((*any)(nil)).Elem()
	typeOfObjects = reflect.TypeOf((*orderedmap.Map[string, ast.Object])(nil))
)

var kinds = []ast.Kind{ast.KindDisjunction, ast.KindRef, ast.KindConstantRef, ast.KindStruct, ast.KindEnum, ast.KindMap, ast.KindArray, ast.KindScalar, ast.KindIntersection, ast.KindComposableSlot}
var scalarKinds = []ast.ScalarKind{ast.KindNull, ast.KindAny, ast.KindBytes, ast.KindString, ast.KindFloat32, ast.KindFloat64, ast.KindUint8, ast.KindUint16, ast.KindUint32, ast.KindUint64, ast.KindInt8, ast.KindInt16, ast.KindInt32, ast.KindInt64, ast.KindBool}

// `any`-typed fields that legitimately hold structured (mutable) values in real runs:
// Type.Default ([]any / map[string]any from parsers), hint values (the original ast.Type of a
// rewritten disjunction), option defaults, assignment constants, typed constants.
var structuredAnyFields = map[string]bool{
	"Type.Default": true, "JenniesHints": true, "OptionDefault.ArgsValues": true,
	"AssignmentValue.Constant": true, "TypedConstant.Value": true,
}

func (f *filler) scalarAny() any {
	switch f.rng.Intn(5) {
	case 0:
		return int64(f.rng.Intn(100))
	case 1:
		return f.word()
	case 2:
		return f.rng.Bool()
	case 3:
		return float64(f.rng.Intn(1000)) / 8
	}
	return f.word()
}

func (f *filler) structuredAny(depth int) any {
	switch f.rng.Intn(9) {
	case 6:
		return []any{} // empty but present
	case 7:
		return map[string]any{}
	case 8:
		return map[string]any{"empty": []any{}, "none": map[string]any{}, "list": []any{[]any{}, f.scalarAny()}}
	case 0:
		return []any{f.scalarAny(), f.scalarAny()}
	case 1:
		return map[string]any{"k": f.scalarAny(), "nested": []any{f.scalarAny()}}
	case 2:
		return map[string]any{"a": map[string]any{"b": f.scalarAny()}}
	case 3:
		if depth < 3 {
			t := reflect.New(reflect.TypeOf(ast.Type{})).Elem()
			f.fill(t, depth+2, "")
			return t.Interface()
		}
	}
	return f.scalarAny()
}

func (f *filler) word() string {
	return pick(f.rng, []string{"alpha", "Beta", "gamma_1", "Delta", "eps", "Zeta", "eta", "Theta", "iota", "Kappa"})
}

func (f *filler) fill(v reflect.Value, depth int, owner string) {
	t := v.Type()
	switch v.Kind() {
	case reflect.String:
		switch t {
		case reflect.TypeOf(ast.Kind("")):
			v.SetString(string(pick(f.rng, kinds)))
		case reflect.TypeOf(ast.ScalarKind("")):
			v.SetString(string(pick(f.rng, scalarKinds)))
		default:
			v.SetString(f.word())
		}
	case reflect.Bool:
		v.SetBool(f.rng.Bool())
	case reflect.Int, reflect.Int64, reflect.Int32:
		v.SetInt(int64(f.rng.Intn(50)))
	case reflect.Interface:
		if t != typeOfAny {
			return
		}
		var val any
		if structuredAnyFields[owner] {
			val = f.structuredAny(depth)
		} else {
			val = f.scalarAny()
		}
		v.Set(reflect.ValueOf(val))
	case reflect.Ptr:
		if t == typeOfObjects {
			m := orderedmap.New[string, ast.Object]()
			n := 0
			if depth < 5 {
				n = f.rng.Range(1, 3)
			}
			for i := 0; i < n; i++ {
				o := reflect.New(reflect.TypeOf(ast.Object{})).Elem()
				f.fill(o, depth+1, "")
				obj := o.Interface().(ast.Object)
				obj.Name = fmt.Sprintf("%s%d", obj.Name, i)
				m.Set(obj.Name, obj)
			}
			v.Set(reflect.ValueOf(m))
			return
		}
		if depth >= 6 || f.rng.Chance(0.2) {
			return
		}
		nv := reflect.New(t.Elem())
		f.fill(nv.Elem(), depth+1, "")
		v.Set(nv)
	case reflect.Slice:
		n := 0
		if depth < 6 {
			n = f.rng.Range(0, 3)
			if f.rng.Chance(0.6) && n == 0 {
				n = 1
			}
		}
		s := reflect.MakeSlice(t, n, n+f.rng.Intn(3)) // spare capacity: append-aliasing shows up
		for i := 0; i < n; i++ {
			if t.Elem().Kind() == reflect.Ptr && t.Elem() != typeOfObjects {
				// no nil elements inside slices of pointers (a nil *Schema in Schemas is not an IR)
				nv := reflect.New(t.Elem().Elem())
				f.fill(nv.Elem(), depth+1, "")
				s.Index(i).Set(nv)
				continue
			}
			f.fill(s.Index(i), depth+1, owner)
		}
		v.Set(s)
	case reflect.Map:
		m := reflect.MakeMap(t)
		n := f.rng.Range(0, 3)
		mapOwner := owner
		if t == reflect.TypeOf(ast.JenniesHints{}) {
			mapOwner = "JenniesHints"
		}
		for i := 0; i < n; i++ {
			k := reflect.New(t.Key()).Elem()
			k.SetString(fmt.Sprintf("%s%d", f.word(), i))
			e := reflect.New(t.Elem()).Elem()
			f.fill(e, depth+1, mapOwner)
			m.SetMapIndex(k, e)
		}
		v.Set(m)
	case reflect.Struct:
		for i := 0; i < v.NumField(); i++ {
			sf := t.Field(i)
			if !sf.IsExported() {
				continue
			}
			name := t.Name() + "." + sf.Name
			f.seenField[name] = struct{}{}
			f.fill(v.Field(i), depth+1, name)
			if !isEmptyish(v.Field(i)) {
				f.populated[name]++
			}
		}
	}
}

// scribble overwrites every settable leaf reachable from v (exported fields, slice elements, map
// values, structured `any` contents) with different values, in place.
func scribble(v reflect.Value, depth int) {
	if depth > 60 || !v.IsValid() {
		return
	}
	switch v.Kind() {
	case reflect.Ptr:
		if !v.IsNil() {
			if v.Type() == typeOfObjects {
				m := v.Interface().(*orderedmap.Map[string, ast.Object])
				var ks []string
				m.Iterate(func(k string, _ ast.Object) { ks = append(ks, k) })
				for _, k := range ks {
					o := m.Get(k)
					ov := reflect.ValueOf(&o).Elem()
					scribble(ov, depth+1)
					m.Set(k, o)
				}
				m.Set("zz_scribbled", ast.Object{Name: "zz_scribbled"})
				return
			}
			scribble(v.Elem(), depth+1)
		}
	case reflect.Interface:
		if v.IsNil() {
			return
		}
		e := v.Elem()
		switch e.Kind() {
		case reflect.Slice:
			for i := 0; i < e.Len(); i++ {
				if e.Index(i).CanSet() {
					e.Index(i).Set(reflect.ValueOf(any("SCRIBBLED")))
				}
			}
		case reflect.Map:
			for _, k := range e.MapKeys() {
				inner := e.MapIndex(k)
				if inner.Kind() == reflect.Interface && !inner.IsNil() && (inner.Elem().Kind() == reflect.Map || inner.Elem().Kind() == reflect.Slice) {
					scribble(inner, depth+1)
					continue
				}
				e.SetMapIndex(k, reflect.ValueOf(any("SCRIBBLED")))
			}
			e.SetMapIndex(reflect.ValueOf("zz_scribbled"), reflect.ValueOf(any(true)))
		case reflect.Struct:
			// a struct stored in an interface is not addressable: copy, scribble (this reaches
			// pointer targets shared with the original), no write-back needed.
			cp := reflect.New(e.Type()).Elem()
			cp.Set(e)
			scribble(cp, depth+1)
		}
	case reflect.Struct:
		for i := 0; i < v.NumField(); i++ {
			if v.Type().Field(i).IsExported() {
				scribble(v.Field(i), depth+1)
			}
		}
	case reflect.Slice:
		for i := 0; i < v.Len(); i++ {
			scribble(v.Index(i), depth+1)
		}
		// also write into spare capacity (append on the copy must not clobber the original's array)
		if v.CanSet() && v.Cap() > v.Len() {
			ext := v.Slice(0, v.Cap())
			for i := v.Len(); i < v.Cap(); i++ {
				scribbleLeaf(ext.Index(i))
			}
		}
	case reflect.Map:
		for _, k := range v.MapKeys() {
			e := v.MapIndex(k)
			ne := reflect.New(e.Type()).Elem()
			ne.Set(e)
			if e.Kind() == reflect.Interface && !e.IsNil() && (e.Elem().Kind() == reflect.Map || e.Elem().Kind() == reflect.Slice || e.Elem().Kind() == reflect.Struct) {
				scribble(ne, depth+1)
				continue
			}
			scribbleLeaf(ne)
			v.SetMapIndex(k, ne)
		}
		if v.Type().Key().Kind() == reflect.String {
			nk := reflect.New(v.Type().Key()).Elem()
			nk.SetString("zz_scribbled")
			v.SetMapIndex(nk, reflect.Zero(v.Type().Elem()))
		}
	default:
		scribbleLeaf(v)
	}
}

func scribbleLeaf(v reflect.Value) {
	if !v.CanSet() {
		return
	}
	switch v.Kind() {
	case reflect.String:
		v.SetString(v.String() + "~X")
	case reflect.Bool:
		v.SetBool(!v.Bool())
	case reflect.Int, reflect.Int64, reflect.Int32:
		v.SetInt(v.Int() + 1000)
	case reflect.Interface:
		if v.Type() == typeOfAny {
			v.Set(reflect.ValueOf(any("SCRIBBLED")))
		}
	case reflect.Struct:
		for i := 0; i < v.NumField(); i++ {
			if v.Type().Field(i).IsExported() {
				scribbleLeaf(v.Field(i))
			}
		}
	}
}

type copyTarget struct {
	name string
	typ  reflect.Type
}

func c18Targets() []copyTarget {
	ts := []any{
		ast.Type{}, ast.Object{}, ast.Schema{}, ast.Schemas{}, ast.StructField{}, ast.StructType{}, ast.EnumValue{}, ast.EnumType{},
		ast.DisjunctionType{}, ast.ArrayType{}, ast.MapType{}, ast.RefType{}, ast.ScalarType{}, ast.IntersectionType{},
		ast.ConstantReferenceType{}, ast.ComposableSlotType{}, ast.TypeConstraint{},
		ast.Builder{}, ast.Constructor{}, ast.Option{}, ast.Argument{}, ast.Assignment{}, ast.Path{}, ast.PathItem{}, ast.PathIndex{},
		ast.AssignmentValue{}, ast.AssignmentEnvelope{}, ast.EnvelopeFieldValue{}, ast.AssignmentNilCheck{}, ast.AssignmentConstraint{},
		ast.BuilderFactory{}, ast.OptionCall{}, ast.OptionCallParameter{}, ast.TypedConstant{}, ast.FactoryRef{}, ast.FactoryCall{},
	}
	var out []copyTarget
	for _, t := range ts {
		rt := reflect.TypeOf(t)
		out = append(out, copyTarget{rt.Name(), rt})
	}
	return out
}

// callDeepCopy invokes DeepCopy on an addressable value (value or pointer receiver).
func callDeepCopy(v reflect.Value) (reflect.Value, bool) {
	m := v.Addr().MethodByName("DeepCopy")
	if !m.IsValid() {
		m = v.MethodByName("DeepCopy")
	}
	if !m.IsValid() {
		return reflect.Value{}, false
	}
	out := m.Call(nil)
	return out[0], true
}

func checkC18(r *Run) {
	r.Rule = "reflectively filled values of every IR node type that has a DeepCopy method (all exported fields populated across the run — measured per field); the duplicate_object transformation (with and without omit_fields) on irgen schemas: the source object it leaves behind equals the source object it was given, the duplicate shares nothing with it; distinct = distinct canonical forms; non-trivial = value has at least one pointer/slice/map populated. Oracles: structural equality (nil≡empty collections), disjointness of pointer targets / maps / slice backing arrays (reflection walk incl. unexported fields and `any` contents), and scribble-the-copy-then-rehash-the-original. Plus: every Passes.Process copy (chain.begin hook) on irgen schemas."
	targets := c18Targets()
	perType := r.n(40, 1500)
	f := &filler{populated: map[string]int{}, seenField: map[string]struct{}{}}
	for ti, tg := range targets {
		for c := 0; c < perType; c++ {
			f.rng = newRNG("C18", r.Seed, tg.name, c)
			orig := reflect.New(tg.typ).Elem()
			f.fill(orig, 0, "")
			// Schemas: slice of *Schema — fill produced pointers already
			before := canon(orig.Interface())
			var cp reflect.Value
			var ok bool
			pv, stack := guard(func() { cp, ok = callDeepCopy(orig) })
			r.Eval()
			if pv != nil {
				r.Violation("panic/"+tg.name+".DeepCopy/"+panicClass(pv)+"@"+topCogFrame(stack), fmt.Sprint(pv), map[string]any{"type": tg.name, "case": c, "value": before})
				continue
			}
			if !ok {
				if c == 0 {
					r.Inconclusive("no DeepCopy method on " + tg.name)
				}
				break
			}
			r.Distinct(tg.name + before)
			if c == 0 && ti < 4 {
				s := before
				if len(s) > 300 {
					s = s[:300] + "…"
				}
				r.Sample(map[string]any{"type": tg.name, "value": s})
			}
			// 1. faithful
			cpv := cp
			if cpv.Kind() == reflect.Slice && tg.typ.Kind() == reflect.Slice && cpv.Type() != tg.typ {
				cpv = cpv.Convert(tg.typ) // Schemas.DeepCopy returns []*Schema
			}
			if p, d := diffValue(orig, cpv, "", 0); p != "" || d != "" {
				r.Violation("unfaithful/"+tg.name+".DeepCopy/"+normPath(p), fmt.Sprintf("copy differs from original at %s: %s", p, d), map[string]any{"type": tg.name, "case": c, "value": before})
			}
			// 2. independent
			for _, sp := range sharedRefs(orig.Interface(), cpv.Interface()) {
				r.Violation("aliasing/"+tg.name+".DeepCopy/"+sp, fmt.Sprintf("copy shares mutable structure with the original at %s", sp), map[string]any{"type": tg.name, "case": c, "value": before})
			}
			// 3. scribble
			addr := reflect.New(cpv.Type()).Elem()
			addr.Set(cpv)
			scribble(addr, 0)
			after := canon(orig.Interface())
			if after != before {
				p, _ := firstDiffCanon(before, after)
				r.Violation("mutation-leak/"+tg.name+".DeepCopy", "mutating the copy changed the original near: "+p, map[string]any{"type": tg.name, "case": c, "value": before})
			}
		}
	}
	// population check
	var unpop []string
	for name := range f.seenField {
		if f.populated[name] == 0 {
			unpop = append(unpop, name)
		}
	}
	sort.Strings(unpop)
	if len(unpop) > 0 {
		r.Inconclusive("fields never populated by the generator: " + strings.Join(unpop, ","))
	}
	r.Extra["fields_populated"] = len(f.populated)
	r.Extra["types_checked"] = len(targets)
	r.Count("direct_deepcopy_cases", perType*len(targets))

	// (ii) hook sites on irgen workloads
	c18HookSites(r)
	// (iii) the rules that duplicate
	c18DuplicateObject(r)
	r.Assumptions = append(r.Assumptions,
		"`any` fields that hold scalars in real runs (enum values, constant values, constraint args, path index constants) are filled with immutable scalars; Type.Default, hint values, option defaults, assignment constants and typed constants are filled with nested lists/maps/types as the parsers and passes produce them")
}

func firstDiffCanon(a, b string) (string, int) {
	n := min(len(a), len(b))
	for i := 0; i < n; i++ {
		if a[i] != b[i] {
			lo := max(0, i-60)
			return a[lo:min(len(a), i+40)], i
		}
	}
	return "(length differs)", n
}

func c18HookSites(r *Run) {
	n := r.n(60, 1500)
	events := 0
	for c := 0; c < n; c++ {
		rng := newRNG("C18hook", r.Seed, c)
		o := defaultIROpts()
		o.Pkgs = 3
		schemas, _ := genSchemas(rng, o)
		lang := newLanguage(langNames[c%len(langNames)])
		sink := func(site string, args ...any) {
			if site != "chain.begin" {
				return
			}
			events++
			orig, cp := args[0].(ast.Schemas), args[1].(ast.Schemas)
			if p, d := firstDiff(orig, cp); p != "" || d != "" {
				r.Violation("unfaithful/Schemas.DeepCopy@Passes.Process/"+normPath(p), fmt.Sprintf("at %s: %s", p, d), map[string]any{"case": c, "schemas": mustJSON(orig)})
			}
			for _, sp := range sharedRefs(orig, cp) {
				r.Violation("aliasing/Schemas.DeepCopy@Passes.Process/"+sp, "the working copy made by Passes.Process shares structure with its input at "+sp, map[string]any{"case": c, "schemas": mustJSON(orig)})
			}
		}
		withSink(sink, func() {
			pv, stack := guard(func() { _, _ = lang.CompilerPasses().Process(schemas) })
			_ = pv
			_ = stack // panics are C04's business
		})
		r.Eval()
		r.Distinct("hook" + mustJSON(schemas))
	}
	r.Count("hook.chain.begin_events", events)
	if events == 0 {
		r.Inconclusive("hook chain.begin never fired")
	}
}

// c18DuplicateObject: the `duplicate_object` schema transformation copies an object under another name, optionally
// without some of its members. The original must come out of it as it went in, and the two must share nothing.
func c18DuplicateObject(r *Run) {
	n := r.n(60, 1200)
	events := 0
	for c := 0; c < n; c++ {
		rng := newRNG("C18dup", r.Seed, c)
		o := defaultIROpts()
		o.Pkgs = 2
		schemas, _ := genSchemas(rng, o)
		// candidates: struct objects (omit_fields applies) and, every 4th case, any object
		type cand struct{ pkg, name string }
		var structs, others []cand
		for _, s := range schemas {
			s.Objects.Iterate(func(_ string, obj ast.Object) {
				if obj.Type.Kind == ast.KindStruct && obj.Type.Struct != nil && len(obj.Type.Struct.Fields) > 0 {
					structs = append(structs, cand{s.Package, obj.Name})
				} else {
					others = append(others, cand{s.Package, obj.Name})
				}
			})
		}
		pool := structs
		if c%4 == 3 && len(others) > 0 {
			pool = others
		}
		if len(pool) == 0 {
			continue
		}
		src := pick(rng, pool)
		srcObj, _ := schemas.LocateObject(src.pkg, src.name)
		var omit []string
		if srcObj.Type.Kind == ast.KindStruct && c%3 != 0 {
			fields := srcObj.Type.Struct.Fields
			omit = append(omit, fields[rng.Intn(len(fields))].Name)
			if len(fields) > 2 && rng.Bool() {
				omit = append(omit, strings.ToUpper(fields[len(fields)-1].Name)) // matching is case-insensitive
			}
		}
		destPkg := src.pkg
		if c%5 == 4 {
			destPkg = schemas[(c/5)%len(schemas)].Package
		}
		pass := &compiler.DuplicateObject{
			Object:     compiler.ObjectReference{Package: src.pkg, Object: src.name},
			As:         compiler.ObjectReference{Package: destPkg, Object: src.name + "Twin"},
			OmitFields: omit,
		}
		before := canon(srcObj)
		replay := map[string]any{"case": c, "source": src.pkg + "." + src.name, "omit_fields": omit, "as": destPkg + "." + src.name + "Twin", "schemas": mustJSON(schemas)}
		var out ast.Schemas
		var err error
		pv, stack := guard(func() { out, err = compiler.Passes{pass}.Process(schemas) })
		r.Eval()
		if pv != nil {
			r.Violation("panic/duplicate_object/"+panicClass(pv)+"@"+topCogFrame(stack), fmt.Sprint(pv), replay)
			continue
		}
		if err != nil {
			r.Count("duplicate_object_errors", 1)
			continue
		}
		events++
		r.Distinct("dup" + before + strings.Join(omit, ","))
		if canon(srcObj) != before {
			r.Violation("mutation-leak/duplicate_object/input-schemas-changed", "the schemas handed to the transformation were modified", replay)
			continue
		}
		kept, found := out.LocateObject(src.pkg, src.name)
		if !found {
			r.Violation("unfaithful/duplicate_object/source-object-gone", "the source object is no longer in the schemas", replay)
			continue
		}
		if after := canon(kept); after != before {
			p, _ := firstDiffCanon(before, after)
			tag := "source-object-changed"
			if len(omit) > 0 {
				tag += "/with-omit_fields"
			}
			r.Violation("mutation-leak/duplicate_object/"+tag, fmt.Sprintf("duplicating %s.%s (omit_fields=%v) changed the object itself near: %s", src.pkg, src.name, omit, p), replay)
			continue
		}
		twin, found := out.LocateObject(destPkg, src.name+"Twin")
		if !found {
			r.Violation("unfaithful/duplicate_object/no-duplicate", "no duplicate was registered", replay)
			continue
		}
		// the duplicate: same type, minus the omitted members
		want := kept.DeepCopy()
		if want.Type.Kind == ast.KindStruct && want.Type.Struct != nil && len(omit) > 0 {
			var fs []ast.StructField
			for _, f := range want.Type.Struct.Fields {
				drop := false
				for _, o := range omit {
					if strings.EqualFold(o, f.Name) {
						drop = true
					}
				}
				if !drop {
					fs = append(fs, f)
				}
			}
			want.Type.Struct.Fields = fs
		}
		if a, b := canon(want.Type), canon(twin.Type); a != b {
			p, _ := firstDiffCanon(a, b)
			r.Violation("unfaithful/duplicate_object/duplicate-type-differs", fmt.Sprintf("the duplicate of %s.%s (omit_fields=%v) differs from its source near: %s", src.pkg, src.name, omit, p), replay)
		}
		for _, sp := range sharedRefs(kept, twin) {
			r.Violation("aliasing/duplicate_object/"+sp, "the duplicate shares mutable structure with its source at "+sp, replay)
		}
		addr := reflect.New(reflect.TypeOf(twin)).Elem()
		addr.Set(reflect.ValueOf(twin))
		scribble(addr, 0)
		if after := canon(kept); after != before {
			p, _ := firstDiffCanon(before, after)
			r.Violation("mutation-leak/duplicate_object/through-the-duplicate", "mutating the duplicate changed its source near: "+p, replay)
		}
	}
	r.Count("events.duplicate_object", events)
	if events == 0 {
		r.Inconclusive("no duplicate_object transformation was observed")
	}
}
