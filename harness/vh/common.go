package main

import (
	"crypto/sha256"
	"encoding/hex"
	"encoding/json"
	"fmt"
	"hash/fnv"
	"os"
	"path/filepath"
	"runtime/debug"
	"sort"
	"strconv"
	"strings"
	"sync"
	"time"
)

// ---------------------------------------------------------------------------------------
// PRNG: splitmix64, keyed sub-streams so that adding cases never reshuffles earlier ones.

type RNG struct{ s uint64 }

func newRNG(parts ...any) *RNG {
	h := fnv.New64a()
	for _, p := range parts {
		fmt.Fprintf(h, "%v|", p)
	}
	return &RNG{s: h.Sum64()}
}

func (r *RNG) U64() uint64 {
	r.s += 0x9e3779b97f4a7c15
	z := r.s
	z = (z ^ (z >> 30)) * 0xbf58476d1ce4e5b9
	z = (z ^ (z >> 27)) * 0x94d049bb133111eb
	return z ^ (z >> 31)
}

func (r *RNG) Intn(n int) int {
	if n <= 0 {
		return 0
	}
	return int(r.U64() % uint64(n))
}
func (r *RNG) Range(lo, hi int) int { return lo + r.Intn(hi-lo+1) }
func (r *RNG) Bool() bool           { return r.U64()&1 == 1 }
func (r *RNG) Chance(p float64) bool {
	return float64(r.U64()>>11)/float64(1<<53) < p
}
func (r *RNG) Float() float64 { return float64(r.U64()>>11) / float64(1<<53) }

func pick[T any](r *RNG, xs []T) T { return xs[r.Intn(len(xs))] }

func shuffle[T any](r *RNG, xs []T) {
	for i := len(xs) - 1; i > 0; i-- {
		j := r.Intn(i + 1)
		xs[i], xs[j] = xs[j], xs[i]
	}
}

// ---------------------------------------------------------------------------------------
// Known findings (read-only at run time).

type KnownFinding struct {
	Property string `json:"property"`
	Key      string `json:"key"`
	Status   string `json:"status"` // "known" | "fixed"
	Commit   string `json:"commit,omitempty"`
	What     string `json:"what"`
}

type knownFile struct {
	Findings []KnownFinding `json:"findings"`
}

func loadKnown(prop string) map[string]KnownFinding {
	out := map[string]KnownFinding{}
	raw, err := os.ReadFile(filepath.Join(verifDir(), "known_findings.json"))
	if err != nil {
		return out
	}
	var kf knownFile
	if err := json.Unmarshal(raw, &kf); err != nil {
		fmt.Fprintf(os.Stderr, "known_findings.json unreadable: %v\n", err)
		return out
	}
	for _, f := range kf.Findings {
		if f.Property == prop && f.Status == "known" {
			out[f.Key] = f
		}
	}
	return out
}

func verifDir() string {
	if d := os.Getenv("VERIF_DIR"); d != "" {
		return d
	}
	return "/verif"
}
func repoDir() string {
	if d := os.Getenv("REPO_DIR"); d != "" {
		return d
	}
	return "/repo"
}
func scratchDir() string {
	if d := os.Getenv("VERIF_SCRATCH"); d != "" {
		return d
	}
	d, _ := os.MkdirTemp("", "vhs")
	os.Setenv("VERIF_SCRATCH", d)
	return d
}

// ---------------------------------------------------------------------------------------
// Run: verdict + evidence plumbing.

type violation struct {
	Key    string
	Desc   string
	Replay string
}

type Run struct {
	mu       sync.Mutex
	Prop     string
	Tier     string
	Seed     int64
	Level    string
	start    time.Time
	known    map[string]KnownFinding
	knownHit map[string]int
	viol     map[string]*violation
	violN    int

	Evaluations int
	distinct    map[string]struct{}
	distinctN   int // distinct-by-construction cases (enumerations), added to len(distinct)
	samples     []any
	Rule        string
	Extra       map[string]any
	Assumptions []string
	Counters    map[string]int
	inconcl     []string
	caseIncl    int
	Exhaustive  bool
	replayOnly  string
}

func newRun(prop, tier string) *Run {
	seed, _ := strconv.ParseInt(os.Getenv("VERIF_SEED"), 10, 64)
	if seed == 0 {
		seed = 1
	}
	return &Run{
		Prop: prop, Tier: tier, Seed: seed, Level: "exploration", start: time.Now(),
		known: loadKnown(prop), knownHit: map[string]int{}, viol: map[string]*violation{},
		distinct: map[string]struct{}{}, Extra: map[string]any{}, Counters: map[string]int{},
	}
}

func (r *Run) quick() bool { return r.Tier != "thorough" }

// pickN returns the tier-dependent count.
func (r *Run) n(quick, thorough int) int {
	if r.quick() {
		return quick
	}
	return thorough
}

func (r *Run) Count(name string, delta int) {
	r.mu.Lock()
	r.Counters[name] += delta
	r.mu.Unlock()
}

func (r *Run) Eval() {
	r.mu.Lock()
	r.Evaluations++
	r.mu.Unlock()
}

// Distinct records a distinct non-trivial case (by its hashable description).
func (r *Run) Distinct(desc string) {
	h := sha256.Sum256([]byte(desc))
	r.mu.Lock()
	r.distinct[string(h[:8])] = struct{}{}
	r.mu.Unlock()
}

// DistinctAdd adds n cases that are pairwise distinct by construction (exhaustive enumeration).
func (r *Run) DistinctAdd(n int) {
	r.mu.Lock()
	r.distinctN += n
	r.mu.Unlock()
}

func (r *Run) nDistinct() int { return len(r.distinct) + r.distinctN }

func (r *Run) Sample(s any) {
	r.mu.Lock()
	if len(r.samples) < 6 {
		r.samples = append(r.samples, s)
	}
	r.mu.Unlock()
}

func (r *Run) Inconclusive(why string) {
	r.mu.Lock()
	r.inconcl = append(r.inconcl, why)
	r.mu.Unlock()
}

func (r *Run) CaseInconclusive(why string) {
	r.mu.Lock()
	r.caseIncl++
	n := r.caseIncl
	r.mu.Unlock()
	if n <= 10 {
		fmt.Printf("INCONCLUSIVE case=%s\n", why)
	}
}

// Violation reports a property violation identified by a stable key. If the key is listed in
// known_findings.json, it is reported as KNOWN-FINDING (once) and does not fail the run.
func (r *Run) Violation(key, desc string, replay any) {
	r.mu.Lock()
	defer r.mu.Unlock()
	if kf, ok := r.known[key]; ok {
		r.knownHit[key]++
		if r.knownHit[key] == 1 {
			fmt.Printf("KNOWN-FINDING: property=%s %s [key=%s]\n", r.Prop, kf.What, key)
		}
		return
	}
	r.violN++
	if v, ok := r.viol[key]; ok {
		_ = v
		return
	}
	payload := map[string]any{
		"property": r.Prop, "key": key, "description": desc, "tier": r.Tier, "seed": r.Seed, "case": replay,
	}
	raw, _ := json.MarshalIndent(payload, "", " ")
	h := sha256.Sum256(append([]byte(key), raw...))
	dir := filepath.Join(verifDir(), "replays", r.Prop)
	_ = os.MkdirAll(dir, 0o755)
	path := filepath.Join(dir, hex.EncodeToString(h[:8])+".json")
	_ = os.WriteFile(path, raw, 0o644)
	r.viol[key] = &violation{Key: key, Desc: desc, Replay: path}
	if len(r.viol) <= 5 {
		r.writeEvidence(true)
	}
	if len(r.viol) <= 25 {
		fmt.Printf("VIOLATION property=%s replay=%s\n", r.Prop, path)
		d := desc
		if len(d) > 600 {
			d = d[:600] + "…"
		}
		fmt.Printf("  key=%s\n  %s\n", key, strings.ReplaceAll(d, "\n", "\n  "))
	}
}

// alreadyReported tells whether a key was already reported (violation or known finding) in this run.
func (r *Run) alreadyReported(key string) bool {
	r.mu.Lock()
	defer r.mu.Unlock()
	if _, ok := r.viol[key]; ok {
		return true
	}
	return r.knownHit[key] > 0
}

func (r *Run) Finish() {
	r.mu.Lock()
	defer r.mu.Unlock()
	wall := r.writeEvidence(false)
	keys := make([]string, 0, len(r.Counters))
	for k := range r.Counters {
		keys = append(keys, k)
	}
	sort.Strings(keys)
	fmt.Printf("%s %s seed=%d: evaluations=%d distinct_nontrivial=%d violations=%d(keys) known_hit=%d wall=%.1fs\n",
		r.Prop, r.Tier, r.Seed, r.Evaluations, r.nDistinct(), len(r.viol), len(r.knownHit), wall)
	for _, k := range keys {
		fmt.Printf("  %s=%d\n", k, r.Counters[k])
	}
	if len(r.viol) > 0 {
		os.Exit(1)
	}
	if len(r.inconcl) > 0 {
		for _, w := range r.inconcl {
			fmt.Printf("INCONCLUSIVE %s\n", w)
		}
		os.Exit(2)
	}
	if r.Evaluations == 0 || r.nDistinct() < 2 {
		fmt.Printf("INCONCLUSIVE nothing-observed evaluations=%d distinct=%d\n", r.Evaluations, r.nDistinct())
		os.Exit(2)
	}
	os.Exit(0)
}

// writeEvidence writes evidence/<id>.json (caller holds r.mu). It is also called when a violation is first
// observed, so that a monitored crash that kills the process later (fatal error: stack overflow, …) still
// leaves evidence of what was seen.
func (r *Run) writeEvidence(partial bool) float64 {
	wall := time.Since(r.start).Seconds()
	cov := map[string]any{
		"evaluations":         r.Evaluations,
		"distinct_nontrivial": r.nDistinct(),
		"rule":                r.Rule,
		"samples":             r.samples,
		"counters":            r.Counters,
		"known_findings_hit":  r.knownHit,
		"case_inconclusive":   r.caseIncl,
		"run_inconclusive":    r.inconcl,
	}
	if r.Exhaustive {
		cov["exhaustive"] = true
	}
	for k, v := range r.Extra {
		cov[k] = v
	}
	if len(r.samples) == 0 {
		cov["samples"] = []any{"(none)"}
	}
	ev := map[string]any{
		"property_id": r.Prop, "tier": r.Tier, "seed": r.Seed, "level": r.Level,
		"coverage": cov, "assumptions": r.Assumptions, "wall_s": wall, "violations": len(r.viol),
	}
	if r.Assumptions == nil {
		ev["assumptions"] = []string{}
	}
	if partial {
		cov["partial"] = "written when a violation was observed, before the run ended"
	}
	raw, _ := json.MarshalIndent(ev, "", " ")
	if r.replayOnly == "" {
		_ = os.MkdirAll(filepath.Join(verifDir(), "evidence"), 0o755)
		_ = os.WriteFile(filepath.Join(verifDir(), "evidence", r.Prop+".json"), raw, 0o644)
	}
	return wall
}

// ---------------------------------------------------------------------------------------
// helpers

func sha(s string) string {
	h := sha256.Sum256([]byte(s))
	return hex.EncodeToString(h[:8])
}

func mustJSON(v any) string {
	raw, err := json.Marshal(v)
	if err != nil {
		return fmt.Sprintf("<<json error: %v>>", err)
	}
	return string(raw)
}

// guard runs f and converts a panic into (panicValue, stack).
func guard(f func()) (pv any, stack string) {
	defer func() {
		if e := recover(); e != nil {
			pv = e
			stack = string(debug.Stack())
		}
	}()
	f()
	return nil, ""
}

// topCogFrame extracts the first stack frame inside the cog module that is not harness code.
func topCogFrame(stack string) string {
	lines := strings.Split(stack, "\n")
	for _, l := range lines {
		l = strings.TrimSpace(l)
		if !strings.HasPrefix(l, "github.com/grafana/cog/") {
			continue
		}
		if strings.Contains(l, "/zzverif/") || strings.Contains(l, "verifhook") {
			continue
		}
		if i := strings.LastIndex(l, "("); i > 0 {
			l = l[:i]
		}
		l = strings.TrimPrefix(l, "github.com/grafana/cog/")
		// strip generic instantiation noise and closure suffixes
		if i := strings.Index(l, "[...]"); i >= 0 {
			l = l[:i] + l[i+5:]
		}
		for {
			j := strings.LastIndex(l, ".func")
			if j < 0 {
				break
			}
			l = l[:j]
		}
		return l
	}
	return "?"
}

func panicClass(pv any) string {
	s := fmt.Sprint(pv)
	switch {
	case strings.Contains(s, "nil pointer dereference"):
		return "nil-deref"
	case strings.Contains(s, "interface conversion"):
		return "type-assertion"
	case strings.Contains(s, "index out of range"), strings.Contains(s, "slice bounds out of range"):
		return "index"
	case strings.Contains(s, "makeslice"), strings.Contains(s, "cap out of range"), strings.Contains(s, "len out of range"):
		return "makeslice"
	case strings.Contains(s, "assignment to entry in nil map"):
		return "nil-map-write"
	case strings.Contains(s, "stack overflow"):
		return "stack-overflow"
	}
	// explicit panic(...) with a message: keep its leading words only (paths, names and numbers vary)
	words := strings.Fields(s)
	if len(words) > 5 {
		words = words[:5]
	}
	return "explicit:" + strings.Join(words, " ")
}

func sortedKeys[V any](m map[string]V) []string {
	ks := make([]string, 0, len(m))
	for k := range m {
		ks = append(ks, k)
	}
	sort.Strings(ks)
	return ks
}
