package main

import (
	"fmt"
	"os"
	"path/filepath"
	"reflect"
	"sort"
	"strings"

	"github.com/grafana/cog/internal/ast"
	"github.com/grafana/cog/internal/languages"
	"github.com/grafana/cog/internal/veneers/rewrite"
	cogyaml "github.com/grafana/cog/internal/yaml"
)

// C14 — converters over *composed* builders: the `compose` rule leaves one type (core.Widget) with one builder
// per plugin package, all of the same name, told apart by the discriminator their constructors pin. A converter
// of a builder that takes such a value (directly, in a list, in a map) has to delegate, per guard, to the
// converter of the builder whose constructor pins exactly the guarded constants — otherwise re-executing the
// printed code rebuilds another plugin's object. The monitor walks the conversion plan the real
// ConverterGenerator returns for every builder and checks each delegation against the builders in the context.

func c14ComposeSchemas(plugins []composePlugin, typeName string) ast.Schemas {
	core := ast.NewSchema("core", ast.SchemaMeta{})
	core.AddObject(ast.NewObject("core", typeName, ast.NewStruct(
		ast.NewStructField("type", ast.String(), ast.Required()),
		ast.NewStructField("title", ast.String(), ast.Required()),
		ast.NewStructField("options", ast.Any()),
	)))
	board := ast.NewSchema("board", ast.SchemaMeta{})
	board.AddObject(ast.NewObject("board", "Board", ast.NewStruct(
		ast.NewStructField("name", ast.String(), ast.Required()),
		ast.NewStructField("widgets", ast.NewArray(ast.NewRef("core", typeName)), ast.Required()),
		ast.NewStructField("main", ast.NewRef("core", typeName)),
		ast.NewStructField("byName", ast.NewMap(ast.String(), ast.NewRef("core", typeName))),
		ast.NewStructField("spare", ast.NewRef("core", typeName, ast.Nullable())),
		ast.NewStructField("spares", ast.NewArray(ast.NewRef("core", typeName, ast.Nullable()))),
	)))
	schemas := ast.Schemas{core, board}
	for _, p := range plugins {
		s := ast.NewSchema(p.pkg, ast.SchemaMeta{Kind: ast.SchemaKindComposable, Variant: ast.SchemaVariantPanel, Identifier: p.pkg})
		var fields []ast.StructField
		for _, f := range p.objects["Options"] {
			fields = append(fields, ast.NewStructField(f, ast.String()))
		}
		s.AddObject(ast.NewObject(p.pkg, "Options", ast.NewStruct(fields...)))
		schemas = append(schemas, s)
	}
	return schemas
}

type c14Delegation struct {
	guards []languages.MappingGuard
	target languages.BuilderArgMapping
	choice bool
	group  int // choices of one BuilderDisjunction share a group
	runtime string
}

var c14Group int

var (
	c14ChoiceT  = reflect.TypeOf(languages.BuilderChoiceMapping{})
	c14BuilderT = reflect.TypeOf(languages.BuilderArgMapping{})
	c14RuntimeT = reflect.TypeOf(languages.RuntimeArgMapping{})
	c14AstTypeT = reflect.TypeOf(ast.Type{})
	c14AstPathT = reflect.TypeOf(ast.Path{})
)

func c14CollectDelegations(v reflect.Value, out *[]c14Delegation, depth int) {
	if depth > 40 || !v.IsValid() {
		return
	}
	switch v.Kind() {
	case reflect.Ptr, reflect.Interface:
		if !v.IsNil() {
			c14CollectDelegations(v.Elem(), out, depth+1)
		}
	case reflect.Slice, reflect.Array:
		if v.Type() == c14AstPathT {
			return
		}
		if v.Type().Elem() == c14ChoiceT {
			c14Group++
		}
		for i := 0; i < v.Len(); i++ {
			c14CollectDelegations(v.Index(i), out, depth+1)
		}
	case reflect.Struct:
		switch v.Type() {
		case c14AstTypeT:
			return
		case c14ChoiceT:
			c := v.Interface().(languages.BuilderChoiceMapping)
			*out = append(*out, c14Delegation{guards: c.Guards, target: c.Builder, choice: true, group: c14Group})
			return
		case c14RuntimeT:
			rt := v.Interface().(languages.RuntimeArgMapping)
			d := c14Delegation{runtime: rt.FuncName}
			if len(rt.Args) > 0 && rt.Args[0] != nil {
				d.target.ValuePath, d.target.ValueType = rt.Args[0].ValuePath, rt.Args[0].ValueType
			}
			*out = append(*out, d)
			return
		case c14BuilderT:
			*out = append(*out, c14Delegation{target: v.Interface().(languages.BuilderArgMapping)})
			return
		}
		for i := 0; i < v.NumField(); i++ {
			if v.Type().Field(i).IsExported() {
				c14CollectDelegations(v.Field(i), out, depth+1)
			}
		}
	}
}

func c14PathTail(p ast.Path) string {
	var parts []string
	for _, it := range p {
		if !it.Root {
			parts = append(parts, it.Identifier)
		}
	}
	return strings.Join(parts, ".")
}

func checkC14Compose(r *Run) {
	n := r.n(12, 120)
	dir, _ := os.MkdirTemp(scratchDir(), "c14c-")
	defer os.RemoveAll(dir)
	for c := 0; c < n; c++ {
		rng := newRNG("C14-compose", r.Seed, c)
		plugins := composePlugins(rng, rng.Range(2, 5))
		for i := len(plugins) - 1; i > 0; i-- {
			j := rng.Intn(i + 1)
			plugins[i], plugins[j] = plugins[j], plugins[i]
		}
		// every third case calls the composed type Panel (outside package dashboard): cog's converter generator has a
		// special case for dashboard.Panel only
		typeName := "Widget"
		if c%3 == 1 {
			typeName = "Panel"
		}
		schemas := c14ComposeSchemas(plugins, typeName)
		var builders ast.Builders
		if pv, _ := guard(func() { builders = (&ast.BuilderGenerator{}).FromAST(schemas) }); pv != nil {
			r.CaseInconclusive("BuilderGenerator panicked on the compose schemas")
			continue
		}
		y := "language: all\npackage: core\nbuilders:\n  - compose:\n      by_variant: panelcfg\n      source_builder_name: core." + typeName + "\n      plugin_discriminator_field: type\n      composition_map:\n        Options: options\noptions: []\n"
		f := filepath.Join(dir, fmt.Sprintf("compose-%d.yaml", c))
		_ = os.WriteFile(f, []byte(y), 0o644)
		rewriter, err := cogyaml.NewVeneersLoader().RewriterFrom([]string{f}, rewrite.Config{})
		if err != nil {
			r.CaseInconclusive("compose veneer rejected: " + err.Error())
			continue
		}
		lang := []string{"go", "java", "python", "php", "typescript"}[c%5]
		var composed ast.Builders
		var aerr error
		if pv, _ := guard(func() { composed, aerr = rewriter.ApplyTo(schemas, builders, lang) }); pv != nil || aerr != nil {
			r.CaseInconclusive(fmt.Sprintf("compose rule failed (C17's business): %v %v", pv, aerr))
			continue
		}
		// the generic source builder is dropped in three cases out of four (a configuration that exposes only the
		// per-plugin builders); with it the generator falls back to its single-builder plan
		keepSource := c%4 == 3
		if !keepSource {
			var kept ast.Builders
			for _, b := range composed {
				if !(b.Package == "core" && b.Name == typeName) {
					kept = append(kept, b)
				}
			}
			composed = kept
		}
		replay := map[string]any{"veneers": y, "source_builder_kept": keepSource, "language": lang, "input_ir": mustJSON(schemas)}
		ctx := languages.Context{Schemas: schemas, Builders: composed}
		widgetBuilders := 0
		for _, b := range composed {
			if b.For.SelfRef.ReferredPkg == "core" && b.For.Name == typeName {
				widgetBuilders++
			}
		}
		if keepSource {
			widgetBuilders--
		}
		if widgetBuilders != len(plugins) {
			r.CaseInconclusive(fmt.Sprintf("expected %d composed builders of the core type, found %d", len(plugins), widgetBuilders))
			continue
		}
		r.Eval()
		delegations, choices := 0, 0
		for _, b := range composed {
			var conv languages.Converter
			if pv, _ := guard(func() { conv = languages.NewConverterGenerator(languages.NullableConfig{}).FromBuilder(ctx, b) }); pv != nil {
				r.Violation("compose/converter-generator-panic", fmt.Sprintf("ConverterGenerator.FromBuilder panicked on %s.%s: %v", b.Package, b.Name, pv), replay)
				continue
			}
			var ds []c14Delegation
			c14CollectDelegations(reflect.ValueOf(conv), &ds, 0)
			guardSets := map[string]int{}
			covered, coveredWant, coveredWhere := map[string]map[string]bool{}, map[string][]string{}, map[string]string{}
			c14Group = 0
			for _, d := range ds {
				delegations++
				where := fmt.Sprintf("converter of %s.%s, value %s [compose case %d, %d plugins]", b.Package, b.Name, d.target.ValuePath.String(), c, len(plugins))
				if d.runtime != "" {
					// cog hands dashboard.Panel values to a runtime hook; any other type with builders in the context
					// has to be converted by one of those builders
					vt := d.target.ValueType
					if vt.Kind == ast.KindRef && !(strings.EqualFold(vt.Ref.ReferredPkg, "dashboard") && strings.EqualFold(vt.Ref.ReferredType, "panel")) && len(ctx.BuildersForType(vt)) > 0 {
						r.Violation("compose/value-with-builders-handed-to-runtime-hook", fmt.Sprintf("a %s.%s value is handed to the runtime function %s although the context has builders for it: %s", vt.Ref.ReferredPkg, vt.Ref.ReferredType, d.runtime, where), replay)
					}
					continue
				}
				// every builder of the value's type that pins constants is a candidate the plan has to tell apart
				if d.target.ValueType.Kind == ast.KindRef {
					ref := d.target.ValueType.Ref
					var cands []string
					allPin := true
					for _, cb := range composed {
						if cb.For.SelfRef.ReferredPkg == ref.ReferredPkg && cb.For.SelfRef.ReferredType == ref.ReferredType {
							cands = append(cands, cb.Package+"."+cb.Name)
							pins := false
							for _, a := range cb.Constructor.Assignments {
								if a.Value.Constant != nil {
									pins = true
								}
							}
							allPin = allPin && pins
						}
					}
					if len(cands) > 1 && allPin {
						key := fmt.Sprintf("#%d %s", d.group, d.target.ValuePath.String())
						if !d.choice {
							r.Violation("compose/single-builder-for-a-type-with-several", fmt.Sprintf("the value is always delegated to %s.%s although %d builders (%s) build its type, told apart by the constants they pin: values of the other plugins are rebuilt as this one: %s", d.target.BuilderPkg, d.target.BuilderName, len(cands), strings.Join(cands, ", "), where), replay)
						} else {
							if covered[key] == nil {
								covered[key] = map[string]bool{}
								coveredWant[key] = cands
								coveredWhere[key] = where
							}
							covered[key][d.target.BuilderPkg+"."+d.target.BuilderName] = true
						}
					}
				}
				// the plan describes the value it reads: its type is the type found at the value's path, nullability included
				// (the templates decide on it whether to dereference)
				if n := len(d.target.ValuePath); n > 0 {
					at := d.target.ValuePath[n-1].Type
					if !sameTypeShape(at, d.target.ValueType) || at.Nullable != d.target.ValueType.Nullable {
						r.Violation("compose/delegation-value-type-vs-path", fmt.Sprintf("the delegated value is described as %s (nullable=%v) but the path it is read from holds %s (nullable=%v): %s", typeSummary(d.target.ValueType, 0), d.target.ValueType.Nullable, typeSummary(at, 0), at.Nullable, where), replay)
					}
				}
				var target *ast.Builder
				for i := range composed {
					if composed[i].Package == d.target.BuilderPkg && composed[i].Name == d.target.BuilderName {
						target = &composed[i]
					}
				}
				if target == nil {
					r.Violation("compose/delegates-to-missing-builder", fmt.Sprintf("delegates to %s.%s, which no builder in the context is called: %s", d.target.BuilderPkg, d.target.BuilderName, where), replay)
					continue
				}
				if d.target.ValueType.Kind == ast.KindRef && (target.For.SelfRef.ReferredPkg != d.target.ValueType.Ref.ReferredPkg || target.For.SelfRef.ReferredType != d.target.ValueType.Ref.ReferredType) {
					r.Violation("compose/delegates-to-builder-of-another-type", fmt.Sprintf("delegates a %s.%s value to %s.%s, which builds %s: %s", d.target.ValueType.Ref.ReferredPkg, d.target.ValueType.Ref.ReferredType, target.Package, target.Name, target.For.SelfRef.String(), where), replay)
					continue
				}
				if !d.choice {
					continue
				}
				choices++
				var want, got []string
				for _, a := range target.Constructor.Assignments {
					if a.Value.Constant != nil {
						want = append(want, fmt.Sprintf("%s=%v", c14PathTail(a.Path), a.Value.Constant))
					}
				}
				for _, g := range d.guards {
					if g.Op == ast.EqualOp {
						got = append(got, fmt.Sprintf("%s=%v", c14PathTail(g.Path), g.Value))
					}
				}
				sort.Strings(want)
				sort.Strings(got)
				// the guard's path is rooted at the value, the constructor's at the built object: compare the tails
				tail := func(xs []string) []string {
					out := make([]string, len(xs))
					for i, x := range xs {
						k, v, _ := strings.Cut(x, "=")
						if j := strings.LastIndex(k, "."); j >= 0 {
							k = k[j+1:]
						}
						out[i] = k + "=" + v
					}
					sort.Strings(out)
					return out
				}
				if strings.Join(tail(want), ",") != strings.Join(tail(got), ",") {
					r.Violation("compose/choice-guard-vs-builder-constants", fmt.Sprintf("when %s the value is delegated to %s.%s, whose constructor pins %s: re-executing the printed code builds another plugin's object: %s", strings.Join(got, ","), target.Package, target.Name, strings.Join(want, ","), where), replay)
				}
				guardSets[fmt.Sprintf("#%d %s|%s", d.group, d.target.ValuePath.String(), strings.Join(got, ","))]++
			}
			for _, key := range sortedKeys(covered) {
				for _, cand := range coveredWant[key] {
					if !covered[key][cand] {
						r.Violation("compose/choice-list-misses-a-builder", fmt.Sprintf("no choice delegates to %s, one of the builders of the value's type: its values are not converted: %s", cand, coveredWhere[key]), replay)
					}
				}
			}
			for k, cnt := range guardSets {
				if cnt > 1 {
					r.Violation("compose/choice-guards-not-exclusive", fmt.Sprintf("%d choices carry the same guard %s in the converter of %s.%s [compose case %d]", cnt, k, b.Package, b.Name, c), replay)
				}
			}
		}
		r.Count("compose.delegations", delegations)
		r.Count("compose.builder_choices", choices)
		if choices > 0 {
			r.Distinct("compose|" + mustJSON(schemas))
		}
	}
}
