package main

import (
	"bytes"
	"fmt"
	"strings"

	"github.com/grafana/cog/internal/ast"
	"github.com/grafana/cog/internal/ast/compiler"
	cogyaml "github.com/grafana/cog/internal/yaml"
)

// C15 — schema transformations have their documented effect and touch nothing else.
// One small reference model per transformation (written from docs/reference/schema_transformations.md
// and the matching rule of the property), applied to an independent clone of the IR; the real pass
// is loaded from YAML (user-facing path) and run through compiler.Passes.Process. Results are compared
// object by object (order included), PassesTrail excepted.

func init() { register("C15", checkC15) }

// ---- canonical form without trails ------------------------------------------------------

func stripTrails(schemas ast.Schemas) ast.Schemas {
	out := cloneSchemas(schemas)
	var fix func(t *ast.Type)
	fix = func(t *ast.Type) {
		t.PassesTrail = nil
		if t.Hints != nil && len(t.Hints) == 0 {
			t.Hints = nil
		}
		if t.Array != nil {
			fix(&t.Array.ValueType)
		}
		if t.Map != nil {
			fix(&t.Map.IndexType)
			fix(&t.Map.ValueType)
		}
		if t.Struct != nil {
			for i := range t.Struct.Fields {
				t.Struct.Fields[i].PassesTrail = nil
				fix(&t.Struct.Fields[i].Type)
			}
		}
		if t.Disjunction != nil {
			for i := range t.Disjunction.Branches {
				fix(&t.Disjunction.Branches[i])
			}
		}
		if t.Intersection != nil {
			for i := range t.Intersection.Branches {
				fix(&t.Intersection.Branches[i])
			}
		}
		if t.Enum != nil {
			for i := range t.Enum.Values {
				fix(&t.Enum.Values[i].Type)
			}
		}
	}
	for _, s := range out {
		fix(&s.EntryPointType)
		var names []string
		s.Objects.Iterate(func(k string, _ ast.Object) { names = append(names, k) })
		for _, n := range names {
			o := s.Objects.Get(n)
			o.PassesTrail = nil
			fix(&o.Type)
			s.Objects.Set(n, o)
		}
	}
	return out
}

// irDiff compares two IRs object by object; returns (class, detail) of the first difference.
func irDiff(want, got ast.Schemas) (string, string) {
	w, g := stripTrails(want), stripTrails(got)
	if len(w) != len(g) {
		return "schema-count", fmt.Sprintf("%d schemas, expected %d", len(g), len(w))
	}
	for i := range w {
		ws, gs := w[i], g[i]
		if ws.Package != gs.Package {
			return "schema-order", fmt.Sprintf("schema #%d is %s, expected %s", i, gs.Package, ws.Package)
		}
		if canon(ws.Metadata) != canon(gs.Metadata) {
			return "schema-metadata", fmt.Sprintf("%s: metadata %s, expected %s", ws.Package, canon(gs.Metadata), canon(ws.Metadata))
		}
		if ws.EntryPoint != gs.EntryPoint || canon(ws.EntryPointType) != canon(gs.EntryPointType) {
			return "entrypoint", fmt.Sprintf("%s: entrypoint %q/%s, expected %q/%s", ws.Package, gs.EntryPoint, typeSummary(gs.EntryPointType, 0), ws.EntryPoint, typeSummary(ws.EntryPointType, 0))
		}
		var wn, gn []string
		ws.Objects.Iterate(func(k string, _ ast.Object) { wn = append(wn, k) })
		gs.Objects.Iterate(func(k string, _ ast.Object) { gn = append(gn, k) })
		if strings.Join(wn, ",") != strings.Join(gn, ",") {
			ws2 := map[string]bool{}
			for _, n := range wn {
				ws2[n] = true
			}
			gs2 := map[string]bool{}
			for _, n := range gn {
				gs2[n] = true
			}
			for _, n := range wn {
				if !gs2[n] {
					return "object-missing", fmt.Sprintf("%s: object %s expected, objects are %v", ws.Package, n, gn)
				}
			}
			for _, n := range gn {
				if !ws2[n] {
					return "object-unexpected", fmt.Sprintf("%s: object %s not expected (expected %v)", ws.Package, n, wn)
				}
			}
			return "object-order", fmt.Sprintf("%s: object order %v, expected %v", ws.Package, gn, wn)
		}
		for _, n := range wn {
			wo, gobj := ws.Objects.Get(n), gs.Objects.Get(n)
			if p, d := firstDiff(wo, gobj); p != "" || d != "" {
				return "object-differs/" + objDiffClass(p), fmt.Sprintf("%s.%s differs at %s: expected vs actual: %s\n  expected: %s\n  actual:   %s", ws.Package, n, p, d, typeSummary(wo.Type, 0), typeSummary(gobj.Type, 0))
			}
		}
	}
	return "", ""
}

func objDiffClass(path string) string {
	p := normPath(path)
	// keep the last two segments
	segs := strings.Split(strings.TrimPrefix(p, "."), ".")
	if len(segs) > 2 {
		segs = segs[len(segs)-2:]
	}
	return strings.Join(segs, ".")
}

// ---- matching rule ----------------------------------------------------------------------

func objMatches(o ast.Object, pkg, name string) bool {
	return o.SelfRef.ReferredPkg == pkg && strings.EqualFold(o.Name, name)
}

func forEachObject(m ast.Schemas, f func(s *ast.Schema, o ast.Object) (ast.Object, bool)) {
	for _, s := range m {
		var names []string
		s.Objects.Iterate(func(k string, _ ast.Object) { names = append(names, k) })
		rebuilt := make([]ast.Object, 0, len(names))
		for _, n := range names {
			o, keep := f(s, s.Objects.Get(n))
			if keep {
				rebuilt = append(rebuilt, o)
			}
		}
		for _, n := range names {
			s.Objects.Remove(n)
		}
		for _, o := range rebuilt {
			s.Objects.Set(o.Name, o)
		}
	}
}

// rewriteRefs applies f to every reference position of the IR.
func rewriteRefs(m ast.Schemas, f func(kind string, pkg, name string, holderPkg string) (string, bool)) {
	var fix func(t *ast.Type, holder string)
	fix = func(t *ast.Type, holder string) {
		switch {
		case t.Kind == ast.KindRef && t.Ref != nil:
			if n, ok := f("ref", t.Ref.ReferredPkg, t.Ref.ReferredType, holder); ok {
				t.Ref.ReferredType = n
			}
		case t.Kind == ast.KindConstantRef && t.ConstantReference != nil:
			if n, ok := f("constant_ref", t.ConstantReference.ReferredPkg, t.ConstantReference.ReferredType, holder); ok {
				t.ConstantReference.ReferredType = n
			}
		}
		if t.Array != nil {
			fix(&t.Array.ValueType, holder)
		}
		if t.Map != nil {
			fix(&t.Map.ValueType, holder)
		}
		if t.Struct != nil {
			for i := range t.Struct.Fields {
				fix(&t.Struct.Fields[i].Type, holder)
			}
		}
		if t.Disjunction != nil {
			for k, v := range t.Disjunction.DiscriminatorMapping {
				if n, ok := f("mapping", holder, v, holder); ok {
					t.Disjunction.DiscriminatorMapping[k] = n
				}
			}
			for i := range t.Disjunction.Branches {
				fix(&t.Disjunction.Branches[i], holder)
			}
		}
		if t.Intersection != nil {
			for i := range t.Intersection.Branches {
				fix(&t.Intersection.Branches[i], holder)
			}
		}
	}
	for _, s := range m {
		if s.EntryPoint != "" {
			if n, ok := f("entrypoint", s.Package, s.EntryPoint, s.Package); ok {
				s.EntryPoint = n
			}
		}
		fix(&s.EntryPointType, s.Package)
		var names []string
		s.Objects.Iterate(func(k string, _ ast.Object) { names = append(names, k) })
		for _, n := range names {
			o := s.Objects.Get(n)
			fix(&o.Type, s.Package)
			s.Objects.Set(n, o)
		}
	}
}

// ---- transformation descriptions --------------------------------------------------------

type xform struct {
	name   string
	yaml   string                                  // one YAML list item (indented by 2), "" for library passes
	lib    compiler.Pass                           // library pass (prefix, append comment)
	model  func(m ast.Schemas) (ast.Schemas, bool) // returns (result, expectError)
	descr  string
	exotic string // non-empty: tagged class (kept out of the main key space)
}

func yamlType(kind string, pkg, name string) string {
	switch kind {
	case "string":
		return "{kind: scalar, scalar: {scalar_kind: string}}"
	case "int":
		return "{kind: scalar, scalar: {scalar_kind: int64}}"
	case "ref":
		return fmt.Sprintf("{kind: ref, ref: {referred_pkg: %s, referred_type: %s}}", pkg, name)
	case "array":
		return "{kind: array, array: {value_type: {kind: scalar, scalar: {scalar_kind: bool}}}}"
	}
	return "{kind: scalar, scalar: {scalar_kind: bool}}"
}

func modelType(kind, pkg, name string) ast.Type {
	switch kind {
	case "string":
		return ast.Type{Kind: ast.KindScalar, Scalar: &ast.ScalarType{ScalarKind: ast.KindString}}
	case "int":
		return ast.Type{Kind: ast.KindScalar, Scalar: &ast.ScalarType{ScalarKind: ast.KindInt64}}
	case "ref":
		return ast.Type{Kind: ast.KindRef, Ref: &ast.RefType{ReferredPkg: pkg, ReferredType: name}}
	case "array":
		return ast.Type{Kind: ast.KindArray, Array: &ast.ArrayType{ValueType: ast.Type{Kind: ast.KindScalar, Scalar: &ast.ScalarType{ScalarKind: ast.KindBool}}}}
	}
	return ast.Type{Kind: ast.KindScalar, Scalar: &ast.ScalarType{ScalarKind: ast.KindBool}}
}

type target struct {
	pkg, obj, field string
	spelledObj      string
	spelledField    string
	class           string // exact case-variant absent
}

func pickTarget(rng *RNG, schemas ast.Schemas, wantStruct bool, allowVariants bool) target {
	s := pick(rng, schemas)
	var names []string
	s.Objects.Iterate(func(k string, o ast.Object) {
		if !wantStruct || (o.Type.Kind == ast.KindStruct && o.Type.Struct != nil && len(o.Type.Struct.Fields) > 0) {
			names = append(names, k)
		}
	})
	if len(names) == 0 {
		s.Objects.Iterate(func(k string, _ ast.Object) { names = append(names, k) })
	}
	if len(names) == 0 {
		return target{pkg: s.Package, obj: "NoSuchObject", field: "nofield", spelledObj: "NoSuchObject", spelledField: "nofield", class: "absent"}
	}
	t := target{pkg: s.Package, obj: pick(rng, names), class: "exact"}
	o := s.Objects.Get(t.obj)
	if o.Type.Kind == ast.KindStruct && o.Type.Struct != nil && len(o.Type.Struct.Fields) > 0 {
		t.field = pick(rng, o.Type.Struct.Fields).Name
	} else {
		t.field = "nofield"
	}
	t.spelledObj, t.spelledField = t.obj, t.field
	r := rng.Intn(100)
	switch {
	case r < 12:
		t.class = "absent"
		if rng.Bool() {
			t.spelledObj = "NoSuchObject"
		} else {
			t.spelledField = "noSuchField"
			t.class = "absent-field"
		}
	case r < 24 && allowVariants:
		t.class = "case-variant"
		if rng.Bool() {
			t.spelledObj = flipCase(t.obj)
		} else {
			t.spelledField = flipCase(t.field)
		}
	case r < 30:
		t.class = "absent-package"
		t.pkg = "nopkg"
	}
	return t
}

func flipCase(s string) string {
	if s == strings.ToUpper(s) {
		return strings.ToLower(s)
	}
	return strings.ToUpper(s)
}

// genXform draws one transformation with parameters against the current IR.
func genXform(rng *RNG, schemas ast.Schemas, idx int, allowVariants bool) xform {
	kinds := []string{"rename_object", "omit", "omit_fields", "add_fields", "add_object", "duplicate_object", "retype_object", "retype_field",
		"fields_set_required", "fields_set_not_required", "fields_set_default", "replace_reference", "constant_to_enum", "trim_enum_values",
		"hint_object", "schema_set_identifier", "schema_set_entry_point", "prefix", "append_comment"}
	kind := pick(rng, kinds)
	objMatch := func(t target) func(o ast.Object) bool {
		return func(o ast.Object) bool { return objMatches(o, t.pkg, t.spelledObj) }
	}
	fieldMatch := func(t target, o ast.Object, f ast.StructField) bool {
		return objMatches(o, t.pkg, t.spelledObj) && strings.EqualFold(f.Name, t.spelledField)
	}
	x := xform{name: kind}
	switch kind {
	case "rename_object":
		t := pickTarget(rng, schemas, false, allowVariants)
		to := fmt.Sprintf("Renamed%d", idx)
		x.descr = fmt.Sprintf("rename_object(%s.%s → %s) [%s]", t.pkg, t.spelledObj, to, t.class)
		x.yaml = fmt.Sprintf("  - rename_object:\n      from: %s.%s\n      to: %s\n", t.pkg, t.spelledObj, to)
		x.model = func(m ast.Schemas) (ast.Schemas, bool) {
			var old []string
			forEachObject(m, func(s *ast.Schema, o ast.Object) (ast.Object, bool) {
				if objMatch(t)(o) {
					old = append(old, o.Name)
					o.Name = to
					o.SelfRef.ReferredType = to
				}
				return o, true
			})
			if len(old) > 0 {
				rewriteRefs(m, func(kind, pkg, name, holder string) (string, bool) {
					if pkg == t.pkg && strings.EqualFold(name, t.spelledObj) {
						return to, true
					}
					return "", false
				})
			}
			return m, false
		}
	case "omit":
		t := pickTarget(rng, schemas, false, allowVariants)
		x.descr = fmt.Sprintf("omit(%s.%s) [%s]", t.pkg, t.spelledObj, t.class)
		x.yaml = fmt.Sprintf("  - omit:\n      objects: ['%s.%s']\n", t.pkg, t.spelledObj)
		x.model = func(m ast.Schemas) (ast.Schemas, bool) {
			forEachObject(m, func(s *ast.Schema, o ast.Object) (ast.Object, bool) { return o, !objMatch(t)(o) })
			return m, false
		}
	case "omit_fields":
		t := pickTarget(rng, schemas, true, allowVariants)
		x.descr = fmt.Sprintf("omit_fields(%s.%s.%s) [%s]", t.pkg, t.spelledObj, t.spelledField, t.class)
		x.yaml = fmt.Sprintf("  - omit_fields:\n      fields: ['%s.%s.%s']\n", t.pkg, t.spelledObj, t.spelledField)
		x.model = func(m ast.Schemas) (ast.Schemas, bool) {
			forEachObject(m, func(s *ast.Schema, o ast.Object) (ast.Object, bool) {
				if o.Type.Kind == ast.KindStruct && o.Type.Struct != nil {
					var kept []ast.StructField
					for _, f := range o.Type.Struct.Fields {
						if !fieldMatch(t, o, f) {
							kept = append(kept, f)
						}
					}
					o.Type.Struct.Fields = kept
				}
				return o, true
			})
			return m, false
		}
	case "add_fields":
		t := pickTarget(rng, schemas, rng.Chance(0.85), allowVariants)
		existing := t.field
		x.descr = fmt.Sprintf("add_fields(to %s.%s: added%d:string, %s:int) [%s]", t.pkg, t.spelledObj, idx, existing, t.class)
		x.yaml = fmt.Sprintf("  - add_fields:\n      to: %s.%s\n      fields:\n        - {name: added%d, type: %s, required: true}\n        - {name: %s, type: %s}\n", t.pkg, t.spelledObj, idx, yamlType("string", "", ""), existing, yamlType("int", "", ""))
		newFields := []ast.StructField{{Name: fmt.Sprintf("added%d", idx), Type: modelType("string", "", ""), Required: true}, {Name: existing, Type: modelType("int", "", "")}}
		if rng.Chance(0.5) {
			// the same new name listed twice: a field that exists (by then) is not added again
			x.yaml += fmt.Sprintf("        - {name: added%d, type: %s}\n", idx, yamlType("bool", "", ""))
			x.descr += " + added again as bool"
			newFields = append(newFields, ast.StructField{Name: fmt.Sprintf("added%d", idx), Type: modelType("bool", "", "")})
		}
		x.model = func(m ast.Schemas) (ast.Schemas, bool) {
			expectErr := false
			forEachObject(m, func(s *ast.Schema, o ast.Object) (ast.Object, bool) {
				if !objMatch(t)(o) {
					return o, true
				}
				if o.Type.Kind != ast.KindStruct || o.Type.Struct == nil {
					expectErr = true
					return o, true
				}
				for _, nf := range newFields {
					exists := false
					for _, f := range o.Type.Struct.Fields {
						if f.Name == nf.Name {
							exists = true
						}
					}
					if !exists {
						o.Type.Struct.Fields = append(o.Type.Struct.Fields, nf)
					}
				}
				return o, true
			})
			return m, expectErr
		}
	case "add_object":
		s := pick(rng, schemas)
		pkg := s.Package
		if rng.Chance(0.15) {
			pkg = "nopkg"
		}
		name := fmt.Sprintf("Added%d", idx)
		x.descr = fmt.Sprintf("add_object(%s.%s as string)", pkg, name)
		x.yaml = fmt.Sprintf("  - add_object:\n      object: %s.%s\n      as: %s\n      comments: ['added object']\n", pkg, name, yamlType("string", "", ""))
		x.model = func(m ast.Schemas) (ast.Schemas, bool) {
			for _, ms := range m {
				if ms.Package == pkg {
					ms.AddObject(ast.Object{Name: name, Comments: []string{"added object"}, Type: modelType("string", "", ""), SelfRef: ast.RefType{ReferredPkg: pkg, ReferredType: name}})
				}
			}
			return m, false
		}
	case "duplicate_object":
		t := pickTarget(rng, schemas, rng.Chance(0.7), allowVariants)
		dest := pick(rng, schemas).Package
		if rng.Chance(0.1) {
			dest = "nopkg"
		}
		name := fmt.Sprintf("Dup%d", idx)
		omit := ""
		if rng.Chance(0.5) && t.field != "nofield" {
			omit = t.field
			if rng.Chance(0.3) {
				omit = flipCase(omit)
			}
		}
		x.descr = fmt.Sprintf("duplicate_object(%s.%s as %s.%s omit_fields=[%s]) [%s]", t.pkg, t.spelledObj, dest, name, omit, t.class)
		x.yaml = fmt.Sprintf("  - duplicate_object:\n      object: %s.%s\n      as: %s.%s\n", t.pkg, t.spelledObj, dest, name)
		if omit != "" {
			x.yaml += fmt.Sprintf("      omit_fields: ['%s']\n", omit)
		}
		x.model = func(m ast.Schemas) (ast.Schemas, bool) {
			var src *ast.Object
			for _, ms := range m {
				ms.Objects.Iterate(func(_ string, o ast.Object) {
					if src == nil && objMatch(t)(o) {
						c := cloneObject(o)
						src = &c
					}
				})
			}
			if src == nil {
				return m, false
			}
			for _, ms := range m {
				if ms.Package != dest {
					continue
				}
				d := cloneObject(*src)
				d.Name = name
				d.SelfRef = ast.RefType{ReferredPkg: dest, ReferredType: name}
				if omit != "" && d.Type.Kind == ast.KindStruct && d.Type.Struct != nil {
					var kept []ast.StructField
					for _, f := range d.Type.Struct.Fields {
						if !strings.EqualFold(f.Name, omit) {
							kept = append(kept, f)
						}
					}
					d.Type.Struct.Fields = kept
				}
				ms.AddObject(d)
			}
			return m, false
		}
	case "retype_object":
		t := pickTarget(rng, schemas, false, allowVariants)
		withComments := rng.Bool()
		x.descr = fmt.Sprintf("retype_object(%s.%s as []bool, comments=%v) [%s]", t.pkg, t.spelledObj, withComments, t.class)
		x.yaml = fmt.Sprintf("  - retype_object:\n      object: %s.%s\n      as: %s\n", t.pkg, t.spelledObj, yamlType("array", "", ""))
		if withComments {
			x.yaml += "      comments: ['retyped']\n"
		}
		x.model = func(m ast.Schemas) (ast.Schemas, bool) {
			forEachObject(m, func(s *ast.Schema, o ast.Object) (ast.Object, bool) {
				if objMatch(t)(o) {
					o.Type = modelType("array", "", "")
					if withComments {
						o.Comments = []string{"retyped"}
					}
				}
				return o, true
			})
			return m, false
		}
	case "retype_field":
		t := pickTarget(rng, schemas, true, allowVariants)
		withComments := rng.Bool()
		x.descr = fmt.Sprintf("retype_field(%s.%s.%s as string, comments=%v) [%s]", t.pkg, t.spelledObj, t.spelledField, withComments, t.class)
		x.yaml = fmt.Sprintf("  - retype_field:\n      field: %s.%s.%s\n      as: %s\n", t.pkg, t.spelledObj, t.spelledField, yamlType("string", "", ""))
		if withComments {
			x.yaml += "      comments: ['retyped field']\n"
		}
		x.model = func(m ast.Schemas) (ast.Schemas, bool) {
			forEachObject(m, func(s *ast.Schema, o ast.Object) (ast.Object, bool) {
				if o.Type.Kind == ast.KindStruct && o.Type.Struct != nil {
					for i, f := range o.Type.Struct.Fields {
						if fieldMatch(t, o, f) {
							o.Type.Struct.Fields[i].Type = modelType("string", "", "")
							if withComments {
								o.Type.Struct.Fields[i].Comments = []string{"retyped field"}
							}
							break
						}
					}
				}
				return o, true
			})
			return m, false
		}
	case "fields_set_required", "fields_set_not_required":
		t := pickTarget(rng, schemas, true, allowVariants)
		req := kind == "fields_set_required"
		x.descr = fmt.Sprintf("%s(%s.%s.%s) [%s]", kind, t.pkg, t.spelledObj, t.spelledField, t.class)
		x.yaml = fmt.Sprintf("  - %s:\n      fields: ['%s.%s.%s']\n", kind, t.pkg, t.spelledObj, t.spelledField)
		x.model = func(m ast.Schemas) (ast.Schemas, bool) {
			forEachObject(m, func(s *ast.Schema, o ast.Object) (ast.Object, bool) {
				if o.Type.Kind == ast.KindStruct && o.Type.Struct != nil {
					for i, f := range o.Type.Struct.Fields {
						if fieldMatch(t, o, f) {
							o.Type.Struct.Fields[i].Required = req
							o.Type.Struct.Fields[i].Type.Nullable = !req
						}
					}
				}
				return o, true
			})
			return m, false
		}
	case "fields_set_default":
		t := pickTarget(rng, schemas, true, allowVariants)
		x.descr = fmt.Sprintf("fields_set_default(%s.%s.%s = 'newdefault') [%s]", t.pkg, t.spelledObj, t.spelledField, t.class)
		x.yaml = fmt.Sprintf("  - fields_set_default:\n      defaults:\n        %s.%s.%s: 'newdefault'\n", t.pkg, t.spelledObj, t.spelledField)
		x.model = func(m ast.Schemas) (ast.Schemas, bool) {
			forEachObject(m, func(s *ast.Schema, o ast.Object) (ast.Object, bool) {
				if o.Type.Kind == ast.KindStruct && o.Type.Struct != nil {
					for i, f := range o.Type.Struct.Fields {
						if fieldMatch(t, o, f) {
							o.Type.Struct.Fields[i].Type.Default = "newdefault"
						}
					}
				}
				return o, true
			})
			return m, false
		}
	case "replace_reference":
		t := pickTarget(rng, schemas, false, allowVariants)
		t2 := pickTarget(rng, schemas, false, false)
		for tries := 0; t2.class != "exact" && tries < 20; tries++ {
			t2 = pickTarget(rng, schemas, false, false)
		}
		x.descr = fmt.Sprintf("replace_reference(%s.%s → %s.%s) [%s]", t.pkg, t.spelledObj, t2.pkg, t2.obj, t.class)
		x.yaml = fmt.Sprintf("  - replace_reference:\n      from: %s.%s\n      to: %s.%s\n", t.pkg, t.spelledObj, t2.pkg, t2.obj)
		x.model = func(m ast.Schemas) (ast.Schemas, bool) {
			var fix func(tp *ast.Type)
			fix = func(tp *ast.Type) {
				if tp.Kind == ast.KindRef && tp.Ref != nil && tp.Ref.ReferredPkg == t.pkg && strings.EqualFold(tp.Ref.ReferredType, t.spelledObj) {
					tp.Ref.ReferredPkg, tp.Ref.ReferredType = t2.pkg, t2.obj
				}
				if tp.Array != nil {
					fix(&tp.Array.ValueType)
				}
				if tp.Map != nil {
					fix(&tp.Map.ValueType)
				}
				if tp.Struct != nil {
					for i := range tp.Struct.Fields {
						fix(&tp.Struct.Fields[i].Type)
					}
				}
				if tp.Disjunction != nil {
					for i := range tp.Disjunction.Branches {
						fix(&tp.Disjunction.Branches[i])
					}
				}
				if tp.Intersection != nil {
					for i := range tp.Intersection.Branches {
						fix(&tp.Intersection.Branches[i])
					}
				}
			}
			for _, ms := range m {
				fix(&ms.EntryPointType)
				var names []string
				ms.Objects.Iterate(func(k string, _ ast.Object) { names = append(names, k) })
				for _, n := range names {
					o := ms.Objects.Get(n)
					fix(&o.Type)
					ms.Objects.Set(n, o)
				}
			}
			return m, false
		}
	case "constant_to_enum":
		// prefer constant objects
		var consts []target
		for _, s := range schemas {
			s.Objects.Iterate(func(k string, o ast.Object) {
				if o.Type.Kind == ast.KindScalar && o.Type.Scalar != nil && o.Type.Scalar.Value != nil {
					consts = append(consts, target{pkg: s.Package, obj: k, spelledObj: k, class: "exact"})
				}
			})
		}
		t := pickTarget(rng, schemas, false, allowVariants)
		if len(consts) > 0 && rng.Chance(0.8) {
			t = pick(rng, consts)
		}
		x.descr = fmt.Sprintf("constant_to_enum(%s.%s) [%s]", t.pkg, t.spelledObj, t.class)
		x.yaml = fmt.Sprintf("  - constant_to_enum:\n      objects: ['%s.%s']\n", t.pkg, t.spelledObj)
		x.model = func(m ast.Schemas) (ast.Schemas, bool) {
			forEachObject(m, func(s *ast.Schema, o ast.Object) (ast.Object, bool) {
				if objMatch(t)(o) && o.Type.Kind == ast.KindScalar && o.Type.Scalar != nil && o.Type.Scalar.ScalarKind == ast.KindString {
					if v, ok := o.Type.Scalar.Value.(string); ok {
						o.Type = ast.Type{Kind: ast.KindEnum, Enum: &ast.EnumType{Values: []ast.EnumValue{{Type: modelType("string", "", ""), Name: v, Value: v}}}}
					}
				}
				return o, true
			})
			return m, false
		}
	case "trim_enum_values":
		x.descr = "trim_enum_values"
		x.yaml = "  - trim_enum_values: {}\n"
		x.model = func(m ast.Schemas) (ast.Schemas, bool) {
			var fix func(tp *ast.Type)
			fix = func(tp *ast.Type) {
				if tp.Enum != nil {
					for i, v := range tp.Enum.Values {
						if sv, ok := v.Value.(string); ok {
							tp.Enum.Values[i].Value = strings.TrimSpace(sv)
						}
					}
				}
				if tp.Array != nil {
					fix(&tp.Array.ValueType)
				}
				if tp.Map != nil {
					fix(&tp.Map.ValueType)
				}
				if tp.Struct != nil {
					for i := range tp.Struct.Fields {
						fix(&tp.Struct.Fields[i].Type)
					}
				}
				if tp.Disjunction != nil {
					for i := range tp.Disjunction.Branches {
						fix(&tp.Disjunction.Branches[i])
					}
				}
				if tp.Intersection != nil {
					for i := range tp.Intersection.Branches {
						fix(&tp.Intersection.Branches[i])
					}
				}
			}
			for _, ms := range m {
				var names []string
				ms.Objects.Iterate(func(k string, _ ast.Object) { names = append(names, k) })
				for _, n := range names {
					o := ms.Objects.Get(n)
					fix(&o.Type)
					ms.Objects.Set(n, o)
				}
			}
			return m, false
		}
	case "hint_object":
		t := pickTarget(rng, schemas, false, allowVariants)
		x.descr = fmt.Sprintf("hint_object(%s.%s {added_hint: v, other: 2}) [%s]", t.pkg, t.spelledObj, t.class)
		x.yaml = fmt.Sprintf("  - hint_object:\n      object: %s.%s\n      hints: {added_hint: v, other: 2}\n", t.pkg, t.spelledObj)
		x.model = func(m ast.Schemas) (ast.Schemas, bool) {
			forEachObject(m, func(s *ast.Schema, o ast.Object) (ast.Object, bool) {
				if objMatch(t)(o) {
					if o.Type.Hints == nil {
						o.Type.Hints = ast.JenniesHints{}
					}
					o.Type.Hints["added_hint"] = "v"
					o.Type.Hints["other"] = 2
				}
				return o, true
			})
			return m, false
		}
	case "schema_set_identifier":
		pkg := pick(rng, schemas).Package
		if rng.Chance(0.2) {
			pkg = "nopkg"
		}
		x.descr = fmt.Sprintf("schema_set_identifier(%s, ident-%d)", pkg, idx)
		x.yaml = fmt.Sprintf("  - schema_set_identifier:\n      package: %s\n      identifier: ident-%d\n", pkg, idx)
		x.model = func(m ast.Schemas) (ast.Schemas, bool) {
			for _, ms := range m {
				if ms.Package == pkg {
					ms.Metadata.Identifier = fmt.Sprintf("ident-%d", idx)
				}
			}
			return m, false
		}
	case "schema_set_entry_point":
		t := pickTarget(rng, schemas, false, false)
		x.descr = fmt.Sprintf("schema_set_entry_point(%s, %s) [%s]", t.pkg, t.spelledObj, t.class)
		x.yaml = fmt.Sprintf("  - schema_set_entry_point:\n      package: %s\n      entry_point: %s\n", t.pkg, t.spelledObj)
		x.model = func(m ast.Schemas) (ast.Schemas, bool) {
			for _, ms := range m {
				if ms.Package == t.pkg {
					ms.EntryPoint = t.spelledObj
					ms.EntryPointType = modelType("ref", t.pkg, t.spelledObj)
				}
			}
			return m, false
		}
	case "prefix":
		x.descr = "name prefixing (Pre)"
		x.lib = &compiler.PrefixObjectNames{Prefix: "Pre"}
		x.model = func(m ast.Schemas) (ast.Schemas, bool) {
			forEachObject(m, func(s *ast.Schema, o ast.Object) (ast.Object, bool) {
				o.Name = "Pre" + o.Name
				o.SelfRef.ReferredType = o.Name
				return o, true
			})
			rewriteRefs(m, func(kind, pkg, name, holder string) (string, bool) { return "Pre" + name, true })
			// enum member names receive the prefix too (pinned by the pass's unit test)
			var fix func(tp *ast.Type)
			fix = func(tp *ast.Type) {
				if tp.Enum != nil {
					for i, v := range tp.Enum.Values {
						tp.Enum.Values[i].Name = "Pre" + upperCamel(v.Name)
					}
				}
				if tp.Array != nil {
					fix(&tp.Array.ValueType)
				}
				if tp.Map != nil {
					fix(&tp.Map.ValueType)
				}
				if tp.Struct != nil {
					for i := range tp.Struct.Fields {
						fix(&tp.Struct.Fields[i].Type)
					}
				}
				if tp.Disjunction != nil {
					for i := range tp.Disjunction.Branches {
						fix(&tp.Disjunction.Branches[i])
					}
				}
				if tp.Intersection != nil {
					for i := range tp.Intersection.Branches {
						fix(&tp.Intersection.Branches[i])
					}
				}
			}
			for _, ms := range m {
				var names []string
				ms.Objects.Iterate(func(k string, _ ast.Object) { names = append(names, k) })
				for _, n := range names {
					o := ms.Objects.Get(n)
					fix(&o.Type)
					ms.Objects.Set(n, o)
				}
			}
			return m, false
		}
	case "append_comment":
		x.descr = "append comment to objects"
		x.lib = &compiler.AppendCommentObjects{Comment: "appended comment"}
		x.model = func(m ast.Schemas) (ast.Schemas, bool) {
			forEachObject(m, func(s *ast.Schema, o ast.Object) (ast.Object, bool) {
				o.Comments = append(o.Comments, "appended comment")
				return o, true
			})
			return m, false
		}
	}
	return x
}

// upperCamel mirrors the documented naming of prefixed enum members for simple identifiers.
func upperCamel(s string) string {
	var sb strings.Builder
	up := true
	for _, r := range s {
		if r == '_' || r == '-' || r == ' ' || r == '.' {
			up = true
			continue
		}
		if up {
			sb.WriteString(strings.ToUpper(string(r)))
			up = false
		} else {
			sb.WriteRune(r)
		}
	}
	return sb.String()
}

func checkC15(r *Run) {
	r.Rule = "for each of the 19 transformations of the property: random IRs × parameterisations (exact / case-variant / absent object, field or package; objects of the same name in several packages) loaded from YAML (library passes directly) and run through Passes.Process; result vs. a per-transformation reference model, object by object with order, trails excepted; also sequences of 2–4 transformations (models composed). distinct_nontrivial = distinct (IR, transformation sequence) pairs whose model changes the IR"
	n := r.n(700, 25000)
	perKind := map[string]int{}
	for c := 0; c < n; c++ {
		rng := newRNG("C15", r.Seed, c)
		o := defaultIROpts()
		o.Pkgs = 2
		o.MaxObjs = 5
		o.Depth = 2
		o.NestedUnions = false
		o.UniqueNames = rng.Chance(0.6)
		o.NumericEnumNames = false
		schemas, _ := genSchemas(rng, o)
		if rng.Chance(0.3) {
			// string enums with padded values, for trim_enum_values
			s := schemas[0]
			s.AddObject(ast.NewObject(s.Package, "Padded", ast.NewEnum([]ast.EnumValue{{Type: ast.String(), Name: "a", Value: " a "}, {Type: ast.String(), Name: "b", Value: "b\t"}})))
		}
		seqLen := 1
		if c%3 == 2 {
			seqLen = rng.Range(2, 4)
		}
		var xs []xform
		model := cloneSchemas(schemas)
		expectErr := false
		var yamlDoc strings.Builder
		yamlDoc.WriteString("passes:\n")
		var passes compiler.Passes
		var descr []string
		loadFailed := false
		for i := 0; i < seqLen; i++ {
			x := genXform(rng, model, c*10+i, seqLen == 1)
			xs = append(xs, x)
			descr = append(descr, x.descr)
			perKind[x.name]++
			if x.lib != nil {
				passes = append(passes, x.lib)
			} else {
				ps, err := cogyaml.NewCompilerLoader().Load(bytes.NewReader([]byte("passes:\n" + x.yaml)))
				if err != nil {
					r.CaseInconclusive("generated YAML rejected: " + err.Error() + "\n" + x.yaml)
					loadFailed = true
					break
				}
				passes = append(passes, ps...)
				yamlDoc.WriteString(x.yaml)
			}
			var e bool
			model, e = x.model(model)
			expectErr = expectErr || e
		}
		if loadFailed {
			continue
		}
		var got ast.Schemas
		var err error
		pv, stack := guard(func() { got, err = passes.Process(schemas) })
		r.Eval()
		replay := map[string]any{"sequence": descr, "passes_yaml": yamlDoc.String(), "input_ir": mustJSON(schemas)}
		tag := xs[0].name
		if seqLen > 1 {
			tag = "sequence"
		}
		if pv != nil {
			r.Count("transformation_panics(C04's business)", 1)
			_ = stack
			continue
		}
		if expectErr {
			if err == nil {
				r.Violation("expected-error-missing/"+tag, fmt.Sprintf("%v should fail (non-struct target) but succeeds", descr), replay)
			}
			continue
		}
		if err != nil {
			r.Violation("unexpected-error/"+tag, fmt.Sprintf("%v fails: %v", descr, err), replay)
			continue
		}
		if canon(stripTrails(model)) != canon(stripTrails(schemas)) {
			r.Distinct(strings.Join(descr, ";") + mustJSON(schemas))
		}
		cls, detail := irDiff(model, got)
		if cls != "" && seqLen == 1 && strings.Contains(xs[0].descr, "[case-variant]") {
			// case-variant designations: treating the name as absent is tolerated as well
			if c2, _ := irDiff(schemas, got); c2 == "" {
				r.Count("case_variant_treated_as_absent(tolerated)/"+tag, 1)
				cls = ""
			}
		}
		if cls != "" {
			key := "effect/" + tag + "/" + cls
			if seqLen > 1 {
				// attribute sequences to the first transformation whose single application disagrees
				key = "effect/sequence/" + cls
				if cls == "entrypoint" {
					// an entry point set to an object that does not exist, then a rename of that absent object
					setAt := -1
					for i, d := range descr {
						if strings.HasPrefix(d, "schema_set_entry_point(") && strings.HasSuffix(d, "[absent]") {
							setAt = i
						}
						if setAt >= 0 && i > setAt && strings.HasPrefix(d, "rename_object(") && strings.HasSuffix(d, "[absent]") {
							key += "/dangling-entry-point-follows-rename-of-absent-object"
							break
						}
					}
				}
			}
			r.Violation(key, fmt.Sprintf("%v\n%s\ninput IR:\n%s", descr, detail, irSummary(schemas)), replay)
		}
		// the duplicate must not share structure with its source (C18 for duplicate rules)
		if xs[0].name == "duplicate_object" && seqLen == 1 && cls == "" {
			for _, s := range got {
				s.Objects.Iterate(func(k string, o ast.Object) {
					if !strings.HasPrefix(k, "Dup") {
						return
					}
					for _, s2 := range got {
						s2.Objects.Iterate(func(k2 string, o2 ast.Object) {
							if k2 == k && s2.Package == s.Package {
								return
							}
							if sp := sharedRefs(o2, o); len(sp) > 0 {
								r.Violation("duplicate-shares-structure-with-source", fmt.Sprintf("%v: duplicate %s.%s shares %v with %s.%s", descr, s.Package, k, sp, s2.Package, k2), replay)
							}
						})
					}
				})
			}
		}
		if c < 3 {
			r.Sample(map[string]any{"sequence": descr})
		}
	}
	for k, v := range perKind {
		r.Count("transformation/"+k, v)
	}
	if len(perKind) < 19 {
		r.Inconclusive(fmt.Sprintf("only %d of 19 transformations were exercised", len(perKind)))
	}
}
