package main

import (
	"bufio"
	"bytes"
	"encoding/json"
	"fmt"
	"os"
	"os/exec"
	"path/filepath"
	"regexp"
	"sort"
	"strings"
	"sync"
	"time"

	"github.com/grafana/cog/internal/ast"
	"github.com/grafana/cog/internal/languages"
)

// The executed corpus: AM schemas → rendered schema files → real pipeline runs (YAML) → generated
// Go / Python trees → compiled driver → JSONL event log. Shared by C01 C08 C10 C11 C12 C13 (C09 C14
// use the builders variant).

type corpusSchema struct {
	ID          string
	Format      string
	AM          *amSchema
	Dir         string // input dir
	SchemaPath  string
	SchemaText  []byte
	Validator   refValidator
	Docs        map[string][]amDoc // accepted valid docs per object
	Faults      map[string][]amDoc
	Files       genFiles
	GenErr      error
	GenPanic    any
	GenStack    string
	GoOK        bool
	PyOK        bool
	GoTypes     map[string]bool // objects registered in the Go driver
	Schemas     ast.Schemas     // IR handed to the Go jennies (context.schemas hook)
	Contexts    map[string]languages.Context
	LangSchemas map[string]ast.Schemas // per-language schemas handed to the jennies (context.schemas hook)
	Discards    int
}

type corpusOpts struct {
	N            int
	Formats      []string
	Profile      string
	Langs        []string // go, python, jsonschema, openapi
	Builders     bool
	Converters   bool
	DocsPerObj   int
	Faults       int
	GoFlags      map[string]any
	CapsOverride func(c *amCaps)
	Tag          string
	NoAimed      bool
}

type corpus struct {
	r          *Run
	dir        string
	opts       corpusOpts
	Schemas    []*corpusSchema
	goBin      string
	goBuildLog string
	BrokenGo   map[string]string // sid → diagnostic
}

func newCorpusDir(tag string) string {
	d, _ := os.MkdirTemp(scratchDir(), "corpus-"+tag+"-")
	return d
}

func buildCorpus(r *Run, o corpusOpts) *corpus {
	c := &corpus{r: r, dir: newCorpusDir(o.Tag), opts: o, BrokenGo: map[string]string{}}
	if o.DocsPerObj == 0 {
		o.DocsPerObj = 8
	}
	c.opts = o
	idx := 0
	for i := 0; i < o.N; i++ {
		for _, format := range o.Formats {
			sid := fmt.Sprintf("s%04d", idx)
			idx++
			rng := newRNG("corpus", o.Tag, r.Seed, i, format)
			caps := capsFor(format)
			if o.CapsOverride != nil {
				o.CapsOverride(&caps)
			}
			am := genAM(rng, caps, "pk", o.Profile)
			cs := &corpusSchema{ID: sid, Format: format, AM: am, Docs: map[string][]amDoc{}, Faults: map[string][]amDoc{}, GoTypes: map[string]bool{}, Contexts: map[string]languages.Context{}}
			c.prepare(cs, rng)
			c.Schemas = append(c.Schemas, cs)
		}
	}
	if !o.NoAimed {
		for _, format := range o.Formats {
			caps := capsFor(format)
			if o.CapsOverride != nil {
				o.CapsOverride(&caps)
			}
			for ai, am := range aimedAMs(caps) {
				sid := fmt.Sprintf("s%04d", idx)
				idx++
				cs := &corpusSchema{ID: sid, Format: format, AM: am, Docs: map[string][]amDoc{}, Faults: map[string][]amDoc{}, GoTypes: map[string]bool{}, Contexts: map[string]languages.Context{}}
				c.prepare(cs, newRNG("aimed", o.Tag, r.Seed, ai, format))
				c.Schemas = append(c.Schemas, cs)
			}
		}
	}
	return c
}

// prepare renders the schema, runs the pipeline and generates documents.
func (c *corpus) prepare(cs *corpusSchema, rng *RNG) {
	in := filepath.Join(c.dir, "in", cs.ID)
	_ = os.MkdirAll(in, 0o755)
	cs.Dir = in
	var input pipeInput
	switch cs.Format {
	case "jsonschema":
		cs.SchemaText = cs.AM.renderJSONSchema()
		cs.SchemaPath = filepath.Join(in, "pk.json")
		input = pipeInput{Kind: "jsonschema", Path: cs.SchemaPath, Package: "pk"}
	case "openapi":
		cs.SchemaText = cs.AM.renderOpenAPI()
		cs.SchemaPath = filepath.Join(in, "pk.json")
		input = pipeInput{Kind: "openapi", Path: cs.SchemaPath, Package: "pk"}
	case "cue":
		cs.SchemaText = cs.AM.renderCUE()
		_ = os.MkdirAll(filepath.Join(in, "pk"), 0o755)
		cs.SchemaPath = filepath.Join(in, "pk", "schema.cue")
		input = pipeInput{Kind: "cue", Path: filepath.Join(in, "pk"), Package: "pk"}
	}
	_ = os.WriteFile(cs.SchemaPath, cs.SchemaText, 0o644)
	v, err := newValidator(cs.Format, cs.SchemaText)
	if err != nil {
		cs.GenErr = fmt.Errorf("reference validator rejects the rendered schema (generator defect, case discarded): %w", err)
		c.r.Count("corpus.schema_discarded_by_reference_validator", 1)
		return
	}
	cs.Validator = v

	outRoot := filepath.Join(c.dir, "out", cs.ID)
	cfg := pipeCfg{Inputs: []pipeInput{input}, Types: true, Builders: c.opts.Builders, Converters: c.opts.Converters, OutDir: filepath.Join(outRoot, "%l")}
	for _, l := range c.opts.Langs {
		flags := defaultLangFlags(l)
		if l == "go" {
			flags["package_root"] = "example.com/gen/" + cs.ID
			for k, v := range c.opts.GoFlags {
				flags[k] = v
			}
		}
		cfg.Langs = append(cfg.Langs, langCfg{Name: l, Flags: flags})
	}
	var res runResult
	withSink(func(site string, args ...any) {
		switch site {
		case "context.schemas":
			if args[0].(string) == "go" {
				cs.Schemas = args[2].(ast.Schemas)
			}
			if cs.LangSchemas == nil {
				cs.LangSchemas = map[string]ast.Schemas{}
			}
			cs.LangSchemas[args[0].(string)] = args[2].(ast.Schemas)
		case "context.ready":
			cs.Contexts[args[0].(string)] = args[1].(languages.Context)
		}
	}, func() {
		res = runPipelineYAML(in, "pipeline.yaml", cfg.YAML(), outRoot)
	})
	cs.Files, cs.GenErr, cs.GenPanic, cs.GenStack = res.Files, res.Err, res.Panic, res.Stack
	if cs.GenErr != nil || cs.GenPanic != nil {
		c.r.Count("corpus.pipeline_errors", 1)
		return
	}
	c.r.Count("corpus.pipelines_ok", 1)
	for t, n := range cs.AM.Tags {
		c.r.Count("construct."+t, n)
	}

	// documents
	dg := &docGen{s: cs.AM, rng: rng}
	for _, o := range cs.AM.Objs {
		if o.T.K != "struct" && o.T.K != "union" {
			continue
		}
		for _, d := range dg.validDocs(o, c.opts.DocsPerObj) {
			if err := cs.Validator.Validate(o.Name, d.JSON()); err != nil {
				cs.Discards++
				c.r.Count("corpus.docs_discarded_by_reference_validator", 1)
				if os.Getenv("VERIF_DEBUG") != "" {
					fmt.Printf("DEBUG discard %s %s %s: %v\n", cs.ID, o.Name, d.JSON(), err)
				}
				continue
			}
			cs.Docs[o.Name] = append(cs.Docs[o.Name], d)
		}
		if c.opts.Faults > 0 && o.T.K == "struct" && len(cs.Docs[o.Name]) > 0 {
			// faults are injected into the richest accepted documents (populated collections)
			docs := append([]amDoc(nil), cs.Docs[o.Name]...)
			sort.SliceStable(docs, func(i, j int) bool { return len(docs[i].JSON()) > len(docs[j].JSON()) })
			half := (c.opts.Faults + 1) / 2
			cs.Faults[o.Name] = dg.faultDocs(o, docs[0], half)
			if len(docs) > 1 {
				cs.Faults[o.Name] = append(cs.Faults[o.Name], dg.faultDocs(o, docs[1], c.opts.Faults-half)...)
			}
		}
	}
}

func (c *corpus) cleanup() { _ = os.RemoveAll(c.dir) }

// ---------------------------------------------------------------------------------------
// Go driver

var goMethodRe = regexp.MustCompile(`(?m)^func \(resource \*?(\w+)\) (UnmarshalJSONStrict|Validate|Equals)\(`)
var goNewRe = regexp.MustCompile(`(?m)^func New(\w+)\(\) \*(\w+)`)

const goDriverTmpl = `package main

import (
	"bufio"
	"encoding/json"
	"fmt"
	"os"
	"strings"
%s
)

type req struct {
	ID   string          ` + "`json:\"id\"`" + `
	Op   string          ` + "`json:\"op\"`" + `
	Type string          ` + "`json:\"type\"`" + `
	Doc  json.RawMessage ` + "`json:\"doc\"`" + `
	Doc2 json.RawMessage ` + "`json:\"doc2\"`" + `
}

type resp struct {
	ID          string          ` + "`json:\"id\"`" + `
	DecodeErr   string          ` + "`json:\"decode_err,omitempty\"`" + `
	StrictErr   string          ` + "`json:\"strict_err,omitempty\"`" + `
	MarshalErr  string          ` + "`json:\"marshal_err,omitempty\"`" + `
	ValidateErr string          ` + "`json:\"validate_err,omitempty\"`" + `
	Out         json.RawMessage ` + "`json:\"out,omitempty\"`" + `
	StrictOut   json.RawMessage ` + "`json:\"strict_out,omitempty\"`" + `
	Equal       *bool           ` + "`json:\"equal,omitempty\"`" + `
	EqualRev    *bool           ` + "`json:\"equal_rev,omitempty\"`" + `
	SelfEqual   *bool           ` + "`json:\"self_equal,omitempty\"`" + `
	Panic       string          ` + "`json:\"panic,omitempty\"`" + `
	Unknown     bool            ` + "`json:\"unknown,omitempty\"`" + `
}

var stage string

type typeOps struct {
	roundtrip func(doc []byte, r *resp)
	equals    func(a, b []byte, r *resp)
	deflt     func(r *resp)
}

func mk[T any, PT interface {
	*T
	UnmarshalJSONStrict([]byte) error
	Validate() error
	Equals(T) bool
}](newDefault func() *T) typeOps {
	return typeOps{
		roundtrip: func(doc []byte, r *resp) {
			var v T
			stage = "json.Unmarshal"
			if err := json.Unmarshal(doc, &v); err != nil {
				r.DecodeErr = err.Error()
			} else {
				stage = "json.Marshal"
				out, err := json.Marshal(v)
				if err != nil {
					r.MarshalErr = err.Error()
				}
				r.Out = out
				stage = "Validate"
				if err := PT(&v).Validate(); err != nil {
					r.ValidateErr = err.Error()
				}
				stage = "Equals"
				se := PT(&v).Equals(v)
				r.SelfEqual = &se
			}
			var s T
			stage = "UnmarshalJSONStrict"
			if err := PT(&s).UnmarshalJSONStrict(doc); err != nil {
				r.StrictErr = err.Error()
			} else {
				out, err := json.Marshal(s)
				if err == nil {
					r.StrictOut = out
				}
			}
		},
		equals: func(a, b []byte, r *resp) {
			var x, y T
			if err := json.Unmarshal(a, &x); err != nil {
				r.DecodeErr = err.Error()
				return
			}
			if err := json.Unmarshal(b, &y); err != nil {
				r.DecodeErr = err.Error()
				return
			}
			stage = "Equals"
			e1 := PT(&x).Equals(y)
			e2 := PT(&y).Equals(x)
			r.Equal, r.EqualRev = &e1, &e2
			o1, _ := json.Marshal(x)
			o2, _ := json.Marshal(y)
			r.Out, r.StrictOut = o1, o2
		},
		deflt: func(r *resp) {
			if newDefault == nil {
				r.Unknown = true
				return
			}
			out, err := json.Marshal(newDefault())
			if err != nil {
				r.MarshalErr = err.Error()
			}
			r.Out = out
		},
	}
}

// mkS: types generated without Equals/Validate (flags off)
func mkS[T any, PT interface {
	*T
	UnmarshalJSONStrict([]byte) error
}](newDefault func() *T) typeOps {
	return typeOps{
		roundtrip: func(doc []byte, r *resp) {
			var v T
			stage = "json.Unmarshal"
			if err := json.Unmarshal(doc, &v); err != nil {
				r.DecodeErr = err.Error()
			} else {
				stage = "json.Marshal"
				out, err := json.Marshal(v)
				if err != nil {
					r.MarshalErr = err.Error()
				}
				r.Out = out
			}
			var s T
			stage = "UnmarshalJSONStrict"
			if err := PT(&s).UnmarshalJSONStrict(doc); err != nil {
				r.StrictErr = err.Error()
			} else {
				out, err := json.Marshal(s)
				if err == nil {
					r.StrictOut = out
				}
			}
		},
		equals: func(a, b []byte, r *resp) { r.Unknown = true },
		deflt: func(r *resp) {
			if newDefault == nil {
				r.Unknown = true
				return
			}
			out, err := json.Marshal(newDefault())
			if err != nil {
				r.MarshalErr = err.Error()
			}
			r.Out = out
		},
	}
}

var registry = map[string]typeOps{
%s
}

func handle(q req) (r resp) {
	r.ID = q.ID
	defer func() {
		if e := recover(); e != nil {
			r.Panic = stage + ": " + fmt.Sprint(e)
		}
	}()
	ops, ok := registry[q.Type]
	if !ok {
		r.Unknown = true
		return
	}
	switch q.Op {
	case "roundtrip":
		ops.roundtrip(q.Doc, &r)
	case "equals":
		ops.equals(q.Doc, q.Doc2, &r)
	case "default":
		ops.deflt(&r)
	}
	return
}

func main() {
	in := bufio.NewReaderSize(os.Stdin, 1<<20)
	out := bufio.NewWriter(os.Stdout)
	defer out.Flush()
	for {
		line, err := in.ReadString('\n')
		if strings.TrimSpace(line) != "" {
			var q req
			if jerr := json.Unmarshal([]byte(line), &q); jerr == nil {
				b, _ := json.Marshal(handle(q))
				out.Write(b)
				out.WriteByte('\n')
				out.Flush()
			}
		}
		if err != nil {
			return
		}
	}
}
`

// buildGoDriver writes the generated Go trees into one module, generates the driver and compiles it.
// Schemas whose package does not compile are excluded (recorded in BrokenGo) and the build retried.
func (c *corpus) buildGoDriver() error {
	root := filepath.Join(c.dir, "gomod")
	_ = os.MkdirAll(root, 0o755)
	_ = os.WriteFile(filepath.Join(root, "go.mod"), []byte("module example.com/gen\n\ngo 1.21\n"), 0o644)
	for _, cs := range c.Schemas {
		if cs.Files == nil {
			continue
		}
		goFiles := cs.Files.under("go")
		if len(goFiles) == 0 {
			continue
		}
		if err := goFiles.writeTo(filepath.Join(root, cs.ID)); err != nil {
			return err
		}
		cs.GoOK = true
	}
	for attempt := 0; attempt < 8; attempt++ {
		var imports, entries strings.Builder
		n := 0
		for _, cs := range c.Schemas {
			if !cs.GoOK {
				continue
			}
			src := string(cs.Files["go/pk/types_gen.go"])
			methods := map[string]map[string]bool{}
			for _, m := range goMethodRe.FindAllStringSubmatch(src, -1) {
				if methods[m[1]] == nil {
					methods[m[1]] = map[string]bool{}
				}
				methods[m[1]][m[2]] = true
			}
			news := map[string]bool{}
			for _, m := range goNewRe.FindAllStringSubmatch(src, -1) {
				if m[1] == m[2] {
					news[m[1]] = true
				}
			}
			used := false
			for _, o := range cs.AM.Objs {
				if o.T.K != "struct" && o.T.K != "union" {
					continue
				}
				ms := methods[o.Name]
				helper := "mk"
				if !(ms["UnmarshalJSONStrict"] && ms["Validate"] && ms["Equals"]) {
					if !ms["UnmarshalJSONStrict"] {
						c.r.Count("corpus.go_objects_without_method_set(skipped)", 1)
						continue
					}
					helper = "mkS"
				}
				nf := "nil"
				if news[o.Name] {
					nf = fmt.Sprintf("p_%s.New%s", cs.ID, o.Name)
				}
				fmt.Fprintf(&entries, "\t%q: %s[p_%s.%s](%s),\n", cs.ID+"."+o.Name, helper, cs.ID, o.Name, nf)
				cs.GoTypes[o.Name] = true
				used = true
				n++
			}
			if used {
				fmt.Fprintf(&imports, "\tp_%s \"example.com/gen/%s/pk\"\n", cs.ID, cs.ID)
			}
		}
		if n == 0 {
			return fmt.Errorf("no Go type could be registered")
		}
		drv := filepath.Join(root, "cmd", "driver")
		_ = os.MkdirAll(drv, 0o755)
		_ = os.WriteFile(filepath.Join(drv, "main.go"), []byte(fmt.Sprintf(goDriverTmpl, imports.String(), entries.String())), 0o644)
		bin := filepath.Join(c.dir, "godriver")
		cmd := exec.Command("go", "build", "-o", bin, "./cmd/driver")
		cmd.Dir = root
		cmd.Env = append(os.Environ(), "GOFLAGS=-mod=mod", "GOPROXY=off", "GOSUMDB=off", "GOTOOLCHAIN=local", "GOWORK=off")
		out, err := cmd.CombinedOutput()
		if err == nil {
			c.goBin = bin
			return nil
		}
		c.goBuildLog = string(out)
		// attribute failures to schemas
		bad := map[string]string{}
		for _, line := range strings.Split(string(out), "\n") {
			if strings.HasPrefix(line, "#") {
				continue
			}
			if m := regexp.MustCompile(`(s\d{4})/`).FindStringSubmatch(line); m != nil {
				if _, ok := bad[m[1]]; !ok {
					bad[m[1]] = strings.TrimSpace(line)
				}
			}
		}
		if len(bad) == 0 {
			return fmt.Errorf("driver build failed: %s", truncate(string(out), 2000))
		}
		for _, cs := range c.Schemas {
			if d, ok := bad[cs.ID]; ok && cs.GoOK {
				cs.GoOK = false
				cs.GoTypes = map[string]bool{}
				c.BrokenGo[cs.ID] = d
			}
		}
	}
	return fmt.Errorf("driver build did not converge: %s", truncate(c.goBuildLog, 2000))
}

func truncate(s string, n int) string {
	if len(s) > n {
		return s[:n] + "…"
	}
	return s
}

type drvReq struct {
	ID   string          `json:"id"`
	Op   string          `json:"op"`
	Type string          `json:"type"`
	Doc  json.RawMessage `json:"doc,omitempty"`
	Doc2 json.RawMessage `json:"doc2,omitempty"`
}

type drvResp struct {
	ID          string          `json:"id"`
	DecodeErr   string          `json:"decode_err"`
	StrictErr   string          `json:"strict_err"`
	MarshalErr  string          `json:"marshal_err"`
	ValidateErr string          `json:"validate_err"`
	EncodeErr   string          `json:"encode_err"`
	Out         json.RawMessage `json:"out"`
	StrictOut   json.RawMessage `json:"strict_out"`
	Equal       *bool           `json:"equal"`
	EqualRev    *bool           `json:"equal_rev"`
	SelfEqual   *bool           `json:"self_equal"`
	Panic       string          `json:"panic"`
	Unknown     bool            `json:"unknown"`
	ImportErr   string          `json:"import_err"`
}

// runDriver feeds requests to a driver process (in shards, in parallel) and returns responses by id.
// The input of every shard is written to a file before the child starts; stdout/stderr go to files.
func (c *corpus) runDriver(name string, argv []string, env []string, dir string, reqs []drvReq) (map[string]drvResp, error) {
	shards := 8
	if len(reqs) < 64 {
		shards = 1
	}
	out := map[string]drvResp{}
	var mu sync.Mutex
	var wg sync.WaitGroup
	var firstErr error
	per := (len(reqs) + shards - 1) / shards
	for s := 0; s < shards; s++ {
		lo, hi := s*per, min(len(reqs), (s+1)*per)
		if lo >= hi {
			continue
		}
		wg.Add(1)
		go func(s int, part []drvReq) {
			defer wg.Done()
			inPath := filepath.Join(c.dir, fmt.Sprintf("%s.in.%d.jsonl", name, s))
			outPath := filepath.Join(c.dir, fmt.Sprintf("%s.out.%d.jsonl", name, s))
			errPath := filepath.Join(c.dir, fmt.Sprintf("%s.err.%d.txt", name, s))
			var buf bytes.Buffer
			for _, q := range part {
				b, _ := json.Marshal(q)
				buf.Write(b)
				buf.WriteByte('\n')
			}
			_ = os.WriteFile(inPath, buf.Bytes(), 0o644)
			inF, _ := os.Open(inPath)
			outF, _ := os.Create(outPath)
			errF, _ := os.Create(errPath)
			cmd := exec.Command(argv[0], argv[1:]...)
			cmd.Dir = dir
			cmd.Env = append(os.Environ(), env...)
			cmd.Stdin, cmd.Stdout, cmd.Stderr = inF, outF, errF
			done := make(chan error, 1)
			_ = cmd.Start()
			go func() { done <- cmd.Wait() }()
			var werr error
			select {
			case werr = <-done:
			case <-time.After(5 * time.Minute):
				_ = cmd.Process.Kill()
				werr = fmt.Errorf("driver watchdog expired")
			}
			inF.Close()
			outF.Close()
			errF.Close()
			f, _ := os.Open(outPath)
			sc := bufio.NewScanner(f)
			sc.Buffer(make([]byte, 1<<20), 1<<26)
			mu.Lock()
			for sc.Scan() {
				var r drvResp
				if json.Unmarshal(sc.Bytes(), &r) == nil && r.ID != "" {
					out[r.ID] = r
				}
			}
			if werr != nil && firstErr == nil {
				eb, _ := os.ReadFile(errPath)
				firstErr = fmt.Errorf("%s shard %d: %v: %s", name, s, werr, truncate(string(eb), 1500))
			}
			mu.Unlock()
			f.Close()
		}(s, reqs[lo:hi])
	}
	wg.Wait()
	return out, firstErr
}

// buildPyTree writes the generated Python packages as <dir>/pyroot/<sid>/… (each is a package).
func (c *corpus) buildPyTree() error {
	root := filepath.Join(c.dir, "pyroot")
	_ = os.MkdirAll(root, 0o755)
	n := 0
	for _, cs := range c.Schemas {
		if cs.Files == nil {
			continue
		}
		py := cs.Files.under("python")
		if len(py) == 0 {
			continue
		}
		if err := py.writeTo(filepath.Join(root, cs.ID)); err != nil {
			return err
		}
		cs.PyOK = true
		n++
	}
	if n == 0 {
		return fmt.Errorf("no python output")
	}
	return nil
}

func (c *corpus) runPy(reqs []drvReq) (map[string]drvResp, error) {
	return c.runDriver("py", []string{"python3", filepath.Join(verifDir(), "py", "driver.py"), filepath.Join(c.dir, "pyroot")}, []string{"PYTHONDONTWRITEBYTECODE=1"}, c.dir, reqs)
}

func (c *corpus) runGo(reqs []drvReq) (map[string]drvResp, error) {
	return c.runDriver("go", []string{c.goBin}, nil, c.dir, reqs)
}

func sortedObjNames(m map[string][]amDoc) []string {
	ks := make([]string, 0, len(m))
	for k := range m {
		ks = append(ks, k)
	}
	sort.Strings(ks)
	return ks
}
