package main

import (
	"bufio"
	"bytes"
	"encoding/json"
	"fmt"
	"os"
	"os/exec"
	"path/filepath"
	"regexp"
	"sort"
	"strings"
	"sync"
	"time"

	"github.com/grafana/cog/internal/ast"
	"github.com/grafana/cog/internal/languages"
)

// The executed corpus: AM schemas → rendered schema files → real pipeline runs (YAML) → generated
// Go / Python trees → compiled driver → JSONL event log. Shared by C01 C08 C10 C11 C12 C13 (C09 C14
// use the builders variant).

type corpusSchema struct {
	ID           string
	Format       string
	AM           *amSchema
	Dir          string // input dir
	SchemaPath   string
	SchemaText   []byte
	Validator    refValidator
	Docs         map[string][]amDoc // accepted valid docs per object
	Faults       map[string][]amDoc
	Files        genFiles
	GenErr       error
	GenPanic     any
	GenStack     string
	GoOK         bool
	PyOK         bool
	GoTypes      map[string]bool   // objects registered in the Go driver
	GoBuilders   map[string]string // normalised builder name → Go name, registered in the Go driver
	GoConverters map[string]string
	Schemas      ast.Schemas // IR handed to the Go jennies (context.schemas hook)
	Contexts     map[string]languages.Context
	LangSchemas  map[string]ast.Schemas // per-language schemas handed to the jennies (context.schemas hook)
	Discards     int
	Veneers      string // builder veneers (YAML) applied in the run
	Extra        string // name of the fixed workload this schema comes from
	Targets      map[string]string
}

type corpusOpts struct {
	N            int
	Formats      []string
	Profile      string
	Langs        []string // go, python, jsonschema, openapi
	Builders     bool
	Converters   bool
	DocsPerObj   int
	Faults       int
	GoFlags      map[string]any
	CapsOverride func(c *amCaps)
	Tag          string
	NoAimed      bool
	Extras       func(caps amCaps) []corpusExtra // fixed schemas with builder veneers (C09, C14)
}

type corpusExtra struct {
	Name    string
	AM      *amSchema
	Veneers string            // YAML (builder transformations), may be empty
	Targets map[string]string // "Builder.option" → dotted path the veneers are meant to make it write
}

type corpus struct {
	r          *Run
	dir        string
	opts       corpusOpts
	Schemas    []*corpusSchema
	goBin      string
	goBuildLog string
	BrokenGo   map[string]string // sid → diagnostic
}

func newCorpusDir(tag string) string {
	d, _ := os.MkdirTemp(scratchDir(), "corpus-"+tag+"-")
	return d
}

func buildCorpus(r *Run, o corpusOpts) *corpus {
	c := &corpus{r: r, dir: newCorpusDir(o.Tag), opts: o, BrokenGo: map[string]string{}}
	if o.DocsPerObj == 0 {
		o.DocsPerObj = 8
	}
	c.opts = o
	idx := 0
	for i := 0; i < o.N; i++ {
		for _, format := range o.Formats {
			sid := fmt.Sprintf("s%04d", idx)
			idx++
			rng := newRNG("corpus", o.Tag, r.Seed, i, format)
			caps := capsFor(format)
			if o.CapsOverride != nil {
				o.CapsOverride(&caps)
			}
			profiles := strings.Split(o.Profile, ",")
			am := genAM(rng, caps, "pk", profiles[i%len(profiles)])
			cs := &corpusSchema{ID: sid, Format: format, AM: am, Docs: map[string][]amDoc{}, Faults: map[string][]amDoc{}, GoTypes: map[string]bool{}, Contexts: map[string]languages.Context{}}
			c.prepare(cs, rng)
			c.Schemas = append(c.Schemas, cs)
		}
	}
	if !o.NoAimed {
		for _, format := range o.Formats {
			caps := capsFor(format)
			if o.CapsOverride != nil {
				o.CapsOverride(&caps)
			}
			for ai, am := range aimedAMs(caps) {
				sid := fmt.Sprintf("s%04d", idx)
				idx++
				cs := &corpusSchema{ID: sid, Format: format, AM: am, Docs: map[string][]amDoc{}, Faults: map[string][]amDoc{}, GoTypes: map[string]bool{}, Contexts: map[string]languages.Context{}}
				c.prepare(cs, newRNG("aimed", o.Tag, r.Seed, ai, format))
				c.Schemas = append(c.Schemas, cs)
			}
		}
	}
	if o.Extras != nil {
		for _, format := range o.Formats {
			caps := capsFor(format)
			if o.CapsOverride != nil {
				o.CapsOverride(&caps)
			}
			for ei, ex := range o.Extras(caps) {
				sid := fmt.Sprintf("s%04d", idx)
				idx++
				cs := &corpusSchema{ID: sid, Format: format, AM: ex.AM, Docs: map[string][]amDoc{}, Faults: map[string][]amDoc{}, GoTypes: map[string]bool{}, Contexts: map[string]languages.Context{}, Veneers: ex.Veneers, Extra: ex.Name, Targets: ex.Targets}
				c.prepare(cs, newRNG("extra", o.Tag, r.Seed, ei, format))
				c.Schemas = append(c.Schemas, cs)
			}
		}
	}
	return c
}

// prepare renders the schema, runs the pipeline and generates documents.
func (c *corpus) prepare(cs *corpusSchema, rng *RNG) {
	in := filepath.Join(c.dir, "in", cs.ID)
	_ = os.MkdirAll(in, 0o755)
	cs.Dir = in
	var input pipeInput
	switch cs.Format {
	case "jsonschema":
		cs.SchemaText = cs.AM.renderJSONSchema()
		cs.SchemaPath = filepath.Join(in, "pk.json")
		input = pipeInput{Kind: "jsonschema", Path: cs.SchemaPath, Package: "pk"}
	case "openapi":
		cs.SchemaText = cs.AM.renderOpenAPI()
		cs.SchemaPath = filepath.Join(in, "pk.json")
		input = pipeInput{Kind: "openapi", Path: cs.SchemaPath, Package: "pk"}
	case "cue":
		cs.SchemaText = cs.AM.renderCUE()
		_ = os.MkdirAll(filepath.Join(in, "pk"), 0o755)
		cs.SchemaPath = filepath.Join(in, "pk", "schema.cue")
		input = pipeInput{Kind: "cue", Path: filepath.Join(in, "pk"), Package: "pk"}
	}
	_ = os.WriteFile(cs.SchemaPath, cs.SchemaText, 0o644)
	v, err := newValidator(cs.Format, cs.SchemaText)
	if err != nil {
		cs.GenErr = fmt.Errorf("reference validator rejects the rendered schema (generator defect, case discarded): %w", err)
		c.r.Count("corpus.schema_discarded_by_reference_validator", 1)
		if os.Getenv("VERIF_DEBUG") != "" {
			fmt.Printf("DEBUG schema discarded %s %s objs=%d: %v\n", cs.ID, cs.Format, len(cs.AM.Objs), err)
		}
		return
	}
	cs.Validator = v

	outRoot := filepath.Join(c.dir, "out", cs.ID)
	cfg := pipeCfg{Inputs: []pipeInput{input}, Types: true, Builders: c.opts.Builders, Converters: c.opts.Converters, OutDir: filepath.Join(outRoot, "%l")}
	if cs.Veneers != "" {
		vd := filepath.Join(in, "veneers")
		_ = os.MkdirAll(vd, 0o755)
		_ = os.WriteFile(filepath.Join(vd, "pk.yaml"), []byte(cs.Veneers), 0o644)
		cfg.VeneerDirs = []string{vd}
	}
	for _, l := range c.opts.Langs {
		flags := defaultLangFlags(l)
		if l == "go" {
			flags["package_root"] = "example.com/gen/" + cs.ID
			for k, v := range c.opts.GoFlags {
				flags[k] = v
			}
		}
		cfg.Langs = append(cfg.Langs, langCfg{Name: l, Flags: flags})
	}
	var res runResult
	withSink(func(site string, args ...any) {
		switch site {
		case "context.schemas":
			if args[0].(string) == "go" {
				cs.Schemas = args[2].(ast.Schemas)
			}
			if cs.LangSchemas == nil {
				cs.LangSchemas = map[string]ast.Schemas{}
			}
			cs.LangSchemas[args[0].(string)] = args[2].(ast.Schemas)
		case "context.ready":
			cs.Contexts[args[0].(string)] = args[1].(languages.Context)
		}
	}, func() {
		res = runPipelineYAML(in, "pipeline.yaml", cfg.YAML(), outRoot)
	})
	cs.Files, cs.GenErr, cs.GenPanic, cs.GenStack = res.Files, res.Err, res.Panic, res.Stack
	if cs.GenErr != nil || cs.GenPanic != nil {
		c.r.Count("corpus.pipeline_errors", 1)
		if os.Getenv("VERIF_DEBUG") != "" {
			fmt.Println("DEBUG pipeline error", cs.ID, cs.Format, truncate(fmt.Sprint(cs.GenErr, cs.GenPanic), 300))
		}
		return
	}
	c.r.Count("corpus.pipelines_ok", 1)
	for t, n := range cs.AM.Tags {
		c.r.Count("construct."+t, n)
	}

	// documents
	dg := &docGen{s: cs.AM, rng: rng}
	for _, o := range cs.AM.Objs {
		if o.T.K != "struct" && o.T.K != "union" {
			continue
		}
		nDocs := c.opts.DocsPerObj
		if cs.AM.Tags["aimed"] > 0 {
			nDocs = 400 // fixed schemas are small: keep every variant docgen derives (one per member and value)
		}
		for _, d := range dg.validDocs(o, nDocs) {
			if err := cs.Validator.Validate(o.Name, d.JSON()); err != nil {
				cs.Discards++
				c.r.Count("corpus.docs_discarded_by_reference_validator", 1)
				if os.Getenv("VERIF_DEBUG") != "" {
					fmt.Printf("DEBUG discard %s %s %s: %v\n", cs.ID, o.Name, d.JSON(), err)
				}
				continue
			}
			cs.Docs[o.Name] = append(cs.Docs[o.Name], d)
		}
		if c.opts.Faults > 0 && o.T.K == "struct" && len(cs.Docs[o.Name]) > 0 {
			// faults are injected into the richest accepted documents (populated collections)
			docs := append([]amDoc(nil), cs.Docs[o.Name]...)
			sort.SliceStable(docs, func(i, j int) bool { return len(docs[i].JSON()) > len(docs[j].JSON()) })
			nFaults := c.opts.Faults
			if cs.AM.Tags["aimed"] > 0 {
				nFaults = 200 // fixed schemas: every single-fault document docgen derives
			}
			half := (nFaults + 1) / 2
			cs.Faults[o.Name] = dg.faultDocs(o, docs[0], half)
			if len(docs) > 1 {
				cs.Faults[o.Name] = append(cs.Faults[o.Name], dg.faultDocs(o, docs[1], nFaults-half)...)
			}
		}
	}
}

func (c *corpus) cleanup() { _ = os.RemoveAll(c.dir) }

// ---------------------------------------------------------------------------------------
// Go driver

var goMethodRe = regexp.MustCompile(`(?m)^func \(resource \*?(\w+)\) (UnmarshalJSONStrict|Validate|Equals)\(`)
var goConverterRe = regexp.MustCompile(`(?m)^func (\w+)Converter\(input (\w+)\) string`)
var goBuilderRe = regexp.MustCompile(`(?m)^var _ cog\.Builder\[(\w+)\] = \(\*(\w+)Builder\)\(nil\)`)

func normName(s string) string {
	var sb strings.Builder
	for _, c := range strings.ToLower(s) {
		if (c >= 'a' && c <= 'z') || (c >= '0' && c <= '9') {
			sb.WriteRune(c)
		}
	}
	return sb.String()
}

var goNewRe = regexp.MustCompile(`(?m)^func New(\w+)\(\) \*(\w+)`)

const goDriverTmpl = `package main

import (
	"bufio"
	"encoding/json"
	"errors"
	"fmt"
	"os"
	"reflect"
	"strings"
	"unsafe"
%s
)

var _ = errors.New
var _ = reflect.TypeOf
var _ unsafe.Pointer

type req struct {
	ID   string          ` + "`json:\"id\"`" + `
	Op   string          ` + "`json:\"op\"`" + `
	Type string          ` + "`json:\"type\"`" + `
	Doc  json.RawMessage ` + "`json:\"doc\"`" + `
	Doc2 json.RawMessage ` + "`json:\"doc2\"`" + `
	Ctor  []json.RawMessage ` + "`json:\"ctor\"`" + `
	Calls []call            ` + "`json:\"calls\"`" + `
}

type call struct {
	Option string            ` + "`json:\"option\"`" + `
	Args   []json.RawMessage ` + "`json:\"args\"`" + `
}

type resp struct {
	ID          string          ` + "`json:\"id\"`" + `
	DecodeErr   string          ` + "`json:\"decode_err,omitempty\"`" + `
	StrictErr   string          ` + "`json:\"strict_err,omitempty\"`" + `
	MarshalErr  string          ` + "`json:\"marshal_err,omitempty\"`" + `
	ValidateErr string          ` + "`json:\"validate_err,omitempty\"`" + `
	Out         json.RawMessage ` + "`json:\"out,omitempty\"`" + `
	StrictOut   json.RawMessage ` + "`json:\"strict_out,omitempty\"`" + `
	Equal       *bool           ` + "`json:\"equal,omitempty\"`" + `
	EqualRev    *bool           ` + "`json:\"equal_rev,omitempty\"`" + `
	SelfEqual   *bool           ` + "`json:\"self_equal,omitempty\"`" + `
	Panic       string          ` + "`json:\"panic,omitempty\"`" + `
	Unknown     bool            ` + "`json:\"unknown,omitempty\"`" + `
	BuildErr    string          ` + "`json:\"build_err,omitempty\"`" + `
	Internal    json.RawMessage ` + "`json:\"internal,omitempty\"`" + `
	HarnessErr  string          ` + "`json:\"harness_err,omitempty\"`" + `
	Recorded    int             ` + "`json:\"recorded\"`" + `
	Code        string          ` + "`json:\"code,omitempty\"`" + `
}

var stage string

// --- builders (C09/C14) ---------------------------------------------------------------

type nestedOps struct {
	fixed   func(raw []byte) (any, error)
	failing func() any
}

type fixedB[T any] struct{ v T }

func (b fixedB[T]) Build() (T, error) { return b.v, nil }

type failB[T any] struct{ err error }

func (b failB[T]) Build() (T, error) { var z T; return z, b.err }

func mkNested[T any](mkErr func(string) error) nestedOps {
	return nestedOps{
		fixed: func(raw []byte) (any, error) {
			var v T
			if err := json.Unmarshal(raw, &v); err != nil {
				return nil, err
			}
			return fixedB[T]{v}, nil
		},
		failing: func() any { return failB[T]{mkErr("boom from nested builder")} },
	}
}

type convOps struct {
	convert func(doc []byte, r *resp)
}

func mkConv[T any](f func(T) string) convOps {
	return convOps{convert: func(doc []byte, r *resp) {
		var v T
		stage = "json.Unmarshal"
		if err := json.Unmarshal(doc, &v); err != nil {
			r.DecodeErr = err.Error()
			return
		}
		out, err := json.Marshal(v)
		if err != nil {
			r.MarshalErr = err.Error()
		}
		r.Out = out
		if val, ok := any(&v).(interface{ Validate() error }); ok {
			stage = "Validate"
			if err := val.Validate(); err != nil {
				r.ValidateErr = err.Error()
			}
		}
		stage = "Converter"
		r.Code = f(v)
	}}
}

func norm(s string) string {
	var sb strings.Builder
	for _, c := range strings.ToLower(s) {
		if (c >= 'a' && c <= 'z') || (c >= '0' && c <= '9') {
			sb.WriteRune(c)
		}
	}
	return sb.String()
}

func isBuilderIface(t reflect.Type) bool {
	if t.Kind() != reflect.Interface || t.NumMethod() != 1 {
		return false
	}
	m := t.Method(0)
	return m.Name == "Build" && m.Type.NumIn() == 0 && m.Type.NumOut() == 2
}

func containsBuilder(t reflect.Type, depth int) bool {
	if depth > 6 {
		return false
	}
	switch t.Kind() {
	case reflect.Interface:
		return isBuilderIface(t)
	case reflect.Slice, reflect.Array, reflect.Map, reflect.Pointer:
		return containsBuilder(t.Elem(), depth+1)
	}
	return false
}

const failMarker = "\"__FAIL__\""

func decodeArg(t reflect.Type, raw json.RawMessage) (reflect.Value, error) {
	if isBuilderIface(t) {
		x := t.Method(0).Type.Out(0)
		ops, ok := nested[x]
		if !ok {
			return reflect.Value{}, fmt.Errorf("no nested builder stub for %%s", x)
		}
		var b any
		if string(raw) == failMarker {
			b = ops.failing()
		} else {
			var err error
			if b, err = ops.fixed(raw); err != nil {
				return reflect.Value{}, fmt.Errorf("nested value for %%s: %%w", x, err)
			}
		}
		v := reflect.New(t).Elem()
		v.Set(reflect.ValueOf(b))
		return v, nil
	}
	if containsBuilder(t, 0) {
		switch t.Kind() {
		case reflect.Slice:
			var items []json.RawMessage
			if err := json.Unmarshal(raw, &items); err != nil {
				return reflect.Value{}, err
			}
			out := reflect.MakeSlice(t, 0, len(items))
			for _, it := range items {
				ev, err := decodeArg(t.Elem(), it)
				if err != nil {
					return reflect.Value{}, err
				}
				out = reflect.Append(out, ev)
			}
			return out, nil
		case reflect.Map:
			var items map[string]json.RawMessage
			if err := json.Unmarshal(raw, &items); err != nil {
				return reflect.Value{}, err
			}
			out := reflect.MakeMap(t)
			for k, it := range items {
				ev, err := decodeArg(t.Elem(), it)
				if err != nil {
					return reflect.Value{}, err
				}
				out.SetMapIndex(reflect.ValueOf(k).Convert(t.Key()), ev)
			}
			return out, nil
		}
		return reflect.Value{}, fmt.Errorf("unsupported builder-carrying parameter type %%s", t)
	}
	p := reflect.New(t)
	if err := json.Unmarshal(raw, p.Interface()); err != nil {
		return reflect.Value{}, fmt.Errorf("argument %%s into %%s: %%w", raw, t, err)
	}
	return p.Elem(), nil
}

func decodeArgs(ft reflect.Type, skip int, raws []json.RawMessage) ([]reflect.Value, error) {
	if ft.NumIn()-skip != len(raws) {
		return nil, fmt.Errorf("arity: function takes %%d arguments, %%d given", ft.NumIn()-skip, len(raws))
	}
	out := make([]reflect.Value, 0, len(raws))
	for i, raw := range raws {
		v, err := decodeArg(ft.In(i+skip), raw)
		if err != nil {
			return nil, err
		}
		out = append(out, v)
	}
	return out, nil
}

func buildOp(q req, r *resp) {
	ctorAny, ok := builderCtors[q.Type]
	if !ok {
		r.Unknown = true
		return
	}
	ctor := reflect.ValueOf(ctorAny)
	args, err := decodeArgs(ctor.Type(), 0, q.Ctor)
	if err != nil {
		r.HarnessErr = "constructor: " + err.Error()
		return
	}
	stage = "constructor"
	b := ctor.Call(args)[0]
	for _, c := range q.Calls {
		var m reflect.Value
		for i := 0; i < b.NumMethod(); i++ {
			if norm(b.Type().Method(i).Name) == norm(c.Option) {
				m = b.Method(i)
			}
		}
		if !m.IsValid() {
			r.HarnessErr = "no method for option " + c.Option
			return
		}
		in, err := decodeArgs(m.Type(), 0, c.Args)
		if err != nil {
			r.HarnessErr = "option " + c.Option + ": " + err.Error()
			return
		}
		stage = "option " + c.Option
		m.Call(in)
	}
	// hooked state: the object under construction and the recorded nested-builder errors
	if f := b.Elem().FieldByName("internal"); f.IsValid() {
		fv := reflect.NewAt(f.Type(), unsafe.Pointer(f.UnsafeAddr())).Elem()
		stage = "marshal internal"
		if out, err := json.Marshal(fv.Interface()); err == nil {
			r.Internal = out
		}
	}
	if f := b.Elem().FieldByName("errors"); f.IsValid() && f.Kind() == reflect.Map {
		r.Recorded = f.Len()
	}
	stage = "Build"
	res := b.MethodByName("Build").Call(nil)
	if !res[1].IsNil() {
		r.BuildErr = res[1].Interface().(error).Error()
		if r.BuildErr == "" {
			r.BuildErr = "(empty error message)"
		}
		return
	}
	stage = "marshal built object"
	out, err := json.Marshal(res[0].Interface())
	if err != nil {
		r.MarshalErr = err.Error()
	}
	r.Out = out
}

type typeOps struct {
	roundtrip func(doc []byte, r *resp)
	equals    func(a, b []byte, r *resp)
	deflt     func(r *resp)
}

func mk[T any, PT interface {
	*T
	UnmarshalJSONStrict([]byte) error
	Validate() error
	Equals(T) bool
}](newDefault func() *T) typeOps {
	return typeOps{
		roundtrip: func(doc []byte, r *resp) {
			var v T
			stage = "json.Unmarshal"
			if err := json.Unmarshal(doc, &v); err != nil {
				r.DecodeErr = err.Error()
			} else {
				stage = "json.Marshal"
				out, err := json.Marshal(v)
				if err != nil {
					r.MarshalErr = err.Error()
				}
				r.Out = out
				stage = "Validate"
				if err := PT(&v).Validate(); err != nil {
					r.ValidateErr = err.Error()
				}
				stage = "Equals"
				se := PT(&v).Equals(v)
				r.SelfEqual = &se
			}
			var s T
			stage = "UnmarshalJSONStrict"
			if err := PT(&s).UnmarshalJSONStrict(doc); err != nil {
				r.StrictErr = err.Error()
				if r.StrictErr == "" {
					r.StrictErr = "(non-nil error with an empty message)"
				}
			} else {
				stage = "json.Marshal after UnmarshalJSONStrict"
				out, err := json.Marshal(s)
				if err == nil {
					r.StrictOut = out
				} else {
					r.StrictErr = "re-encoding the strictly decoded value fails: " + err.Error()
				}
			}
		},
		equals: func(a, b []byte, r *resp) {
			var x, y T
			if err := json.Unmarshal(a, &x); err != nil {
				r.DecodeErr = err.Error()
				return
			}
			if err := json.Unmarshal(b, &y); err != nil {
				r.DecodeErr = err.Error()
				return
			}
			stage = "Equals"
			e1 := PT(&x).Equals(y)
			e2 := PT(&y).Equals(x)
			r.Equal, r.EqualRev = &e1, &e2
			o1, _ := json.Marshal(x)
			o2, _ := json.Marshal(y)
			r.Out, r.StrictOut = o1, o2
		},
		deflt: func(r *resp) {
			if newDefault == nil {
				r.Unknown = true
				return
			}
			out, err := json.Marshal(newDefault())
			if err != nil {
				r.MarshalErr = err.Error()
			}
			r.Out = out
		},
	}
}

// mkS: types generated without Equals/Validate (flags off)
func mkS[T any, PT interface {
	*T
	UnmarshalJSONStrict([]byte) error
}](newDefault func() *T) typeOps {
	return typeOps{
		roundtrip: func(doc []byte, r *resp) {
			var v T
			stage = "json.Unmarshal"
			if err := json.Unmarshal(doc, &v); err != nil {
				r.DecodeErr = err.Error()
			} else {
				stage = "json.Marshal"
				out, err := json.Marshal(v)
				if err != nil {
					r.MarshalErr = err.Error()
				}
				r.Out = out
			}
			var s T
			stage = "UnmarshalJSONStrict"
			if err := PT(&s).UnmarshalJSONStrict(doc); err != nil {
				r.StrictErr = err.Error()
				if r.StrictErr == "" {
					r.StrictErr = "(non-nil error with an empty message)"
				}
			} else {
				stage = "json.Marshal after UnmarshalJSONStrict"
				out, err := json.Marshal(s)
				if err == nil {
					r.StrictOut = out
				} else {
					r.StrictErr = "re-encoding the strictly decoded value fails: " + err.Error()
				}
			}
		},
		equals: func(a, b []byte, r *resp) { r.Unknown = true },
		deflt: func(r *resp) {
			if newDefault == nil {
				r.Unknown = true
				return
			}
			out, err := json.Marshal(newDefault())
			if err != nil {
				r.MarshalErr = err.Error()
			}
			r.Out = out
		},
	}
}

var registry = map[string]typeOps{
%s
}

var builderCtors = map[string]any{
%s
}

var nested = map[reflect.Type]nestedOps{
%s
}

var converters = map[string]convOps{
%s
}

func handle(q req) (r resp) {
	r.ID = q.ID
	defer func() {
		if e := recover(); e != nil {
			r.Panic = stage + ": " + fmt.Sprint(e)
		}
	}()
	if q.Op == "build" {
		buildOp(q, &r)
		return
	}
	if q.Op == "convert" {
		ops, ok := converters[q.Type]
		if !ok {
			r.Unknown = true
			return
		}
		ops.convert(q.Doc, &r)
		return
	}
	ops, ok := registry[q.Type]
	if !ok {
		r.Unknown = true
		return
	}
	switch q.Op {
	case "roundtrip":
		ops.roundtrip(q.Doc, &r)
	case "equals":
		ops.equals(q.Doc, q.Doc2, &r)
	case "default":
		ops.deflt(&r)
	}
	return
}

func main() {
	in := bufio.NewReaderSize(os.Stdin, 1<<20)
	out := bufio.NewWriter(os.Stdout)
	defer out.Flush()
	for {
		line, err := in.ReadString('\n')
		if strings.TrimSpace(line) != "" {
			var q req
			if jerr := json.Unmarshal([]byte(line), &q); jerr == nil {
				b, _ := json.Marshal(handle(q))
				out.Write(b)
				out.WriteByte('\n')
				out.Flush()
			}
		}
		if err != nil {
			return
		}
	}
}
`

// buildGoDriver writes the generated Go trees into one module, generates the driver and compiles it.
// Schemas whose package does not compile are excluded (recorded in BrokenGo) and the build retried.
func (c *corpus) buildGoDriver() error {
	root := filepath.Join(c.dir, "gomod")
	_ = os.MkdirAll(root, 0o755)
	_ = os.WriteFile(filepath.Join(root, "go.mod"), []byte("module example.com/gen\n\ngo 1.21\n"), 0o644)
	for _, cs := range c.Schemas {
		if cs.Files == nil {
			continue
		}
		goFiles := cs.Files.under("go")
		if len(goFiles) == 0 {
			continue
		}
		if err := goFiles.writeTo(filepath.Join(root, cs.ID)); err != nil {
			return err
		}
		if _, hasRuntime := goFiles["cog/builder.go"]; hasRuntime && c.opts.Converters {
			// converters call cog.Dump, which cog's runtime jenny does not emit: supplied from the repository's runtime snapshot
			_ = os.WriteFile(filepath.Join(root, cs.ID, "cog", "dump_supplied_by_harness.go"), cogDumpHelper(), 0o644)
		}
		cs.GoOK = true
	}
	for attempt := 0; attempt < 8; attempt++ {
		var imports, entries, bentries, nentries, centries strings.Builder
		n := 0
		for _, cs := range c.Schemas {
			if !cs.GoOK {
				continue
			}
			src := string(cs.Files["go/pk/types_gen.go"])
			methods := map[string]map[string]bool{}
			for _, m := range goMethodRe.FindAllStringSubmatch(src, -1) {
				if methods[m[1]] == nil {
					methods[m[1]] = map[string]bool{}
				}
				methods[m[1]][m[2]] = true
			}
			news := map[string]bool{}
			for _, m := range goNewRe.FindAllStringSubmatch(src, -1) {
				if m[1] == m[2] {
					news[m[1]] = true
				}
			}
			used := false
			for _, o := range cs.AM.Objs {
				if o.T.K != "struct" && o.T.K != "union" {
					continue
				}
				ms := methods[o.Name]
				helper := "mk"
				if !(ms["UnmarshalJSONStrict"] && ms["Validate"] && ms["Equals"]) {
					if !ms["UnmarshalJSONStrict"] {
						c.r.Count("corpus.go_objects_without_method_set(skipped)", 1)
						continue
					}
					helper = "mkS"
				}
				nf := "nil"
				if news[o.Name] {
					nf = fmt.Sprintf("p_%s.New%s", cs.ID, o.Name)
				}
				fmt.Fprintf(&entries, "\t%q: %s[p_%s.%s](%s),\n", cs.ID+"."+o.Name, helper, cs.ID, o.Name, nf)
				cs.GoTypes[o.Name] = true
				used = true
				n++
			}
			if c.opts.Builders {
				seenX := map[string]bool{}
				cs.GoBuilders = map[string]string{}
				hasB := false
				for _, p := range cs.Files.paths() {
					if !strings.HasPrefix(p, "go/pk/") || !strings.HasSuffix(p, "_builder_gen.go") {
						continue
					}
					for _, m := range goBuilderRe.FindAllStringSubmatch(string(cs.Files[p]), -1) {
						x, nm := m[1], m[2]
						fmt.Fprintf(&bentries, "\t%q: p_%s.New%sBuilder,\n", cs.ID+"."+normName(nm), cs.ID, nm)
						cs.GoBuilders[normName(nm)] = nm
						if !seenX[x] {
							seenX[x] = true
							fmt.Fprintf(&nentries, "\treflect.TypeOf((*p_%s.%s)(nil)).Elem(): mkNested[p_%s.%s](func(m string) error { return c_%s.MakeBuildErrors(\"nested\", errors.New(m)) }),\n", cs.ID, x, cs.ID, x, cs.ID)
						}
						hasB = true
						used = true
						n++
					}
				}
				if c.opts.Converters {
					cs.GoConverters = map[string]string{}
					for _, p := range cs.Files.paths() {
						if !strings.HasPrefix(p, "go/pk/") || !strings.HasSuffix(p, "_converter_gen.go") {
							continue
						}
						for _, m := range goConverterRe.FindAllStringSubmatch(string(cs.Files[p]), -1) {
							fmt.Fprintf(&centries, "\t%q: mkConv[p_%s.%s](p_%s.%sConverter),\n", cs.ID+"."+normName(m[1]), cs.ID, m[2], cs.ID, m[1])
							cs.GoConverters[normName(m[1])] = m[1]
							used = true
							n++
						}
					}
				}
				if hasB {
					fmt.Fprintf(&imports, "\tc_%s \"example.com/gen/%s/cog\"\n", cs.ID, cs.ID)
				}
			}
			if used {
				fmt.Fprintf(&imports, "\tp_%s \"example.com/gen/%s/pk\"\n", cs.ID, cs.ID)
			}
		}
		if n == 0 {
			return fmt.Errorf("no Go type could be registered")
		}
		drv := filepath.Join(root, "cmd", "driver")
		_ = os.MkdirAll(drv, 0o755)
		_ = os.WriteFile(filepath.Join(drv, "main.go"), []byte(fmt.Sprintf(goDriverTmpl, imports.String(), entries.String(), bentries.String(), nentries.String(), centries.String())), 0o644)
		bin := filepath.Join(c.dir, "godriver")
		cmd := exec.Command("go", "build", "-o", bin, "./cmd/driver")
		cmd.Dir = root
		cmd.Env = append(os.Environ(), "GOFLAGS=-mod=mod", "GOPROXY=off", "GOSUMDB=off", "GOTOOLCHAIN=local", "GOWORK=off")
		out, err := cmd.CombinedOutput()
		if err == nil {
			c.goBin = bin
			return nil
		}
		c.goBuildLog = string(out)
		// attribute failures to schemas
		bad := map[string]string{}
		for _, line := range strings.Split(string(out), "\n") {
			if strings.HasPrefix(line, "#") {
				continue
			}
			if m := regexp.MustCompile(`(s\d{4})/`).FindStringSubmatch(line); m != nil {
				if _, ok := bad[m[1]]; !ok {
					bad[m[1]] = strings.TrimSpace(line)
				}
			}
		}
		if len(bad) == 0 {
			return fmt.Errorf("driver build failed: %s", truncate(string(out), 2000))
		}
		for _, cs := range c.Schemas {
			if d, ok := bad[cs.ID]; ok && cs.GoOK {
				cs.GoOK = false
				cs.GoTypes = map[string]bool{}
				c.BrokenGo[cs.ID] = d
			}
		}
	}
	return fmt.Errorf("driver build did not converge: %s", truncate(c.goBuildLog, 2000))
}

func truncate(s string, n int) string {
	if len(s) > n {
		return s[:n] + "…"
	}
	return s
}

type drvReq struct {
	ID     string            `json:"id"`
	Op     string            `json:"op"`
	Type   string            `json:"type"`
	Doc    json.RawMessage   `json:"doc,omitempty"`
	Doc2   json.RawMessage   `json:"doc2,omitempty"`
	Ctor   []json.RawMessage `json:"ctor,omitempty"`
	Calls  []drvCall         `json:"calls,omitempty"`
	PyCtor []any             `json:"py_ctor,omitempty"`
}

type drvCall struct {
	Option string            `json:"option"`
	Args   []json.RawMessage `json:"args"`
	PyArgs []any             `json:"py_args,omitempty"` // shapes for the Python driver
}

type drvResp struct {
	ID          string          `json:"id"`
	DecodeErr   string          `json:"decode_err"`
	StrictErr   string          `json:"strict_err"`
	MarshalErr  string          `json:"marshal_err"`
	ValidateErr string          `json:"validate_err"`
	EncodeErr   string          `json:"encode_err"`
	Out         json.RawMessage `json:"out"`
	StrictOut   json.RawMessage `json:"strict_out"`
	Equal       *bool           `json:"equal"`
	EqualRev    *bool           `json:"equal_rev"`
	SelfEqual   *bool           `json:"self_equal"`
	Panic       string          `json:"panic"`
	Unknown     bool            `json:"unknown"`
	ImportErr   string          `json:"import_err"`
	BuildErr    string          `json:"build_err"`
	Internal    json.RawMessage `json:"internal"`
	HarnessErr  string          `json:"harness_err"`
	Recorded    int             `json:"recorded"`
	CallErr     string          `json:"call_err"`    // python: exception raised by an option call
	CallErrAt   int             `json:"call_err_at"` // index of that call
	Code        string          `json:"code"`
}

// runDriver feeds requests to a driver process (in shards, in parallel) and returns responses by id.
// The input of every shard is written to a file before the child starts; stdout/stderr go to files.
func (c *corpus) runDriver(name string, argv []string, env []string, dir string, reqs []drvReq) (map[string]drvResp, error) {
	shards := 8
	if len(reqs) < 64 {
		shards = 1
	}
	out := map[string]drvResp{}
	var mu sync.Mutex
	var wg sync.WaitGroup
	var firstErr error
	per := (len(reqs) + shards - 1) / shards
	for s := 0; s < shards; s++ {
		lo, hi := s*per, min(len(reqs), (s+1)*per)
		if lo >= hi {
			continue
		}
		wg.Add(1)
		go func(s int, part []drvReq) {
			defer wg.Done()
			inPath := filepath.Join(c.dir, fmt.Sprintf("%s.in.%d.jsonl", name, s))
			outPath := filepath.Join(c.dir, fmt.Sprintf("%s.out.%d.jsonl", name, s))
			errPath := filepath.Join(c.dir, fmt.Sprintf("%s.err.%d.txt", name, s))
			var buf bytes.Buffer
			for _, q := range part {
				b, _ := json.Marshal(q)
				buf.Write(b)
				buf.WriteByte('\n')
			}
			_ = os.WriteFile(inPath, buf.Bytes(), 0o644)
			inF, _ := os.Open(inPath)
			outF, _ := os.Create(outPath)
			errF, _ := os.Create(errPath)
			cmd := exec.Command(argv[0], argv[1:]...)
			cmd.Dir = dir
			cmd.Env = append(os.Environ(), env...)
			cmd.Stdin, cmd.Stdout, cmd.Stderr = inF, outF, errF
			done := make(chan error, 1)
			_ = cmd.Start()
			go func() { done <- cmd.Wait() }()
			var werr error
			select {
			case werr = <-done:
			case <-time.After(5 * time.Minute):
				_ = cmd.Process.Kill()
				werr = fmt.Errorf("driver watchdog expired")
			}
			inF.Close()
			outF.Close()
			errF.Close()
			f, _ := os.Open(outPath)
			sc := bufio.NewScanner(f)
			sc.Buffer(make([]byte, 1<<20), 1<<26)
			mu.Lock()
			for sc.Scan() {
				var r drvResp
				if json.Unmarshal(sc.Bytes(), &r) == nil && r.ID != "" {
					out[r.ID] = r
				}
			}
			if werr != nil && firstErr == nil {
				eb, _ := os.ReadFile(errPath)
				firstErr = fmt.Errorf("%s shard %d: %v: %s", name, s, werr, truncate(string(eb), 1500))
			}
			mu.Unlock()
			f.Close()
		}(s, reqs[lo:hi])
	}
	wg.Wait()
	return out, firstErr
}

// buildPyTree writes the generated Python packages as <dir>/pyroot/<sid>/… (each is a package).
func (c *corpus) buildPyTree() error {
	root := filepath.Join(c.dir, "pyroot")
	_ = os.MkdirAll(root, 0o755)
	n := 0
	for _, cs := range c.Schemas {
		if cs.Files == nil {
			continue
		}
		py := cs.Files.under("python")
		if len(py) == 0 {
			continue
		}
		if err := py.writeTo(filepath.Join(root, cs.ID)); err != nil {
			return err
		}
		cs.PyOK = true
		n++
	}
	if n == 0 {
		return fmt.Errorf("no python output")
	}
	return nil
}

func (c *corpus) runPy(reqs []drvReq) (map[string]drvResp, error) {
	return c.runDriver("py", []string{"python3", filepath.Join(verifDir(), "py", "driver.py"), filepath.Join(c.dir, "pyroot")}, []string{"PYTHONDONTWRITEBYTECODE=1"}, c.dir, reqs)
}

func (c *corpus) runGo(reqs []drvReq) (map[string]drvResp, error) {
	return c.runDriver("go", []string{c.goBin}, nil, c.dir, reqs)
}

func sortedObjNames(m map[string][]amDoc) []string {
	ks := make([]string, 0, len(m))
	for k := range m {
		ks = append(ks, k)
	}
	sort.Strings(ks)
	return ks
}

// ---------------------------------------------------------------------------------------
// Stage 2 (C14): Go expressions printed by generated converters are compiled and executed.

type stage2Case struct {
	ID   string
	SID  string
	Expr string
}

type stage2Resp struct {
	ID       string          `json:"id"`
	Out      json.RawMessage `json:"out"`
	BuildErr string          `json:"build_err"`
	Panic    string          `json:"panic"`
}

const stage2Main = `package main

import (
	"bufio"
	"encoding/json"
	"fmt"
	"os"
	"sort"
)

var cases = map[string]func() (any, error){}

func register(id string, f func() (any, error)) { cases[id] = f }

type resp struct {
	ID       string          ` + "`json:\"id\"`" + `
	Out      json.RawMessage ` + "`json:\"out,omitempty\"`" + `
	BuildErr string          ` + "`json:\"build_err,omitempty\"`" + `
	Panic    string          ` + "`json:\"panic,omitempty\"`" + `
}

func run(id string) (r resp) {
	r.ID = id
	defer func() {
		if e := recover(); e != nil {
			r.Panic = fmt.Sprint(e)
		}
	}()
	v, err := cases[id]()
	if err != nil {
		r.BuildErr = err.Error()
		if r.BuildErr == "" {
			r.BuildErr = "(empty error message)"
		}
		return
	}
	out, err := json.Marshal(v)
	if err != nil {
		r.Panic = "marshal: " + err.Error()
	}
	r.Out = out
	return
}

func main() {
	ids := make([]string, 0, len(cases))
	for id := range cases {
		ids = append(ids, id)
	}
	sort.Strings(ids)
	out := bufio.NewWriter(os.Stdout)
	defer out.Flush()
	for _, id := range ids {
		b, _ := json.Marshal(run(id))
		out.Write(b)
		out.WriteByte('\n')
	}
}
`

var stage2DiagRe = regexp.MustCompile(`case_(\d+)\.go:(\d+)(?::(\d+))?: (.*)$`)

// runStage2 compiles every expression in its own file of one program (compile errors are attributed by
// file name, the offending files removed and the build retried), runs it, and returns the built objects.
func (c *corpus) runStage2(cases []stage2Case) (resps map[string]stage2Resp, broken map[string][]string, err error) {
	root := filepath.Join(c.dir, "gomod")
	dir := filepath.Join(root, "cmd", "stage2")
	_ = os.RemoveAll(dir)
	_ = os.MkdirAll(dir, 0o755)
	_ = os.WriteFile(filepath.Join(dir, "main.go"), []byte(stage2Main), 0o644)
	fileOf := map[int]string{}
	for i, cse := range cases {
		src := fmt.Sprintf("package main\n\nimport (\n\t\"time\"\n\n\tcog \"example.com/gen/%s/cog\"\n\tpk \"example.com/gen/%s/pk\"\n)\n\nvar _ cog.BuildErrors\nvar _ = time.UTC\nvar _ = pk.%s\n\nfunc init() {\n\tregister(%q, func() (any, error) {\n\t\treturn %s.Build()\n\t})\n}\n", cse.SID, cse.SID, "New"+c.anyBuilderOf(cse.SID)+"Builder", cse.ID, cse.Expr)
		_ = os.WriteFile(filepath.Join(dir, fmt.Sprintf("case_%06d.go", i)), []byte(src), 0o644)
		fileOf[i] = cse.ID
	}
	broken = map[string][]string{}
	bin := filepath.Join(c.dir, "stage2bin")
	built := false
	for attempt := 0; attempt < 6 && !built; attempt++ {
		cmd := exec.Command("go", "build", "-gcflags=-e", "-o", bin, "./cmd/stage2")
		cmd.Dir = root
		cmd.Env = append(os.Environ(), "GOFLAGS=-mod=mod", "GOPROXY=off", "GOSUMDB=off", "GOTOOLCHAIN=local", "GOWORK=off")
		out, berr := cmd.CombinedOutput()
		if berr == nil {
			built = true
			break
		}
		removed := 0
		for _, line := range strings.Split(string(out), "\n") {
			m := stage2DiagRe.FindStringSubmatch(strings.TrimSpace(line))
			if m == nil {
				continue
			}
			var i int
			fmt.Sscanf(m[1], "%d", &i)
			id := fileOf[i]
			if _, seen := broken[id]; !seen {
				_ = os.Remove(filepath.Join(dir, fmt.Sprintf("case_%06d.go", i)))
				removed++
			}
			if len(broken[id]) < 8 {
				broken[id] = append(broken[id], m[4]) // every diagnostic of the case: one defect must not hide another
			}
		}
		if removed == 0 {
			return nil, broken, fmt.Errorf("stage-2 build failed without attributable diagnostics: %s", truncate(string(out), 1500))
		}
	}
	if !built {
		return nil, broken, fmt.Errorf("stage-2 build did not converge")
	}
	outPath := filepath.Join(c.dir, "stage2.out.jsonl")
	errPath := filepath.Join(c.dir, "stage2.err.txt")
	outF, _ := os.Create(outPath)
	errF, _ := os.Create(errPath)
	cmd := exec.Command(bin)
	cmd.Stdout, cmd.Stderr = outF, errF
	done := make(chan error, 1)
	_ = cmd.Start()
	go func() { done <- cmd.Wait() }()
	var werr error
	select {
	case werr = <-done:
	case <-time.After(5 * time.Minute):
		_ = cmd.Process.Kill()
		werr = fmt.Errorf("stage-2 watchdog expired")
	}
	outF.Close()
	errF.Close()
	resps = map[string]stage2Resp{}
	f, _ := os.Open(outPath)
	defer f.Close()
	sc := bufio.NewScanner(f)
	sc.Buffer(make([]byte, 1<<20), 1<<26)
	for sc.Scan() {
		var r stage2Resp
		if json.Unmarshal(sc.Bytes(), &r) == nil && r.ID != "" {
			resps[r.ID] = r
		}
	}
	if werr != nil {
		eb, _ := os.ReadFile(errPath)
		return resps, broken, fmt.Errorf("stage-2 run: %v: %s", werr, truncate(string(eb), 1500))
	}
	return resps, broken, nil
}

// anyBuilderOf returns the Go name of some builder of the schema (keeps the pk import used in every case file).
func (c *corpus) anyBuilderOf(sid string) string {
	for _, cs := range c.Schemas {
		if cs.ID == sid {
			for _, k := range sortedKeys(cs.GoBuilders) {
				return cs.GoBuilders[k]
			}
		}
	}
	return "Missing"
}
