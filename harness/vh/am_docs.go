package main

import (
	"bytes"
	"encoding/json"
	"fmt"
	"math"
	"math/big"
	"sort"
	"strings"
)

// docgen: valid documents and single-fault documents derived from the AM.

type amDoc struct {
	Obj   string
	Val   any
	Label string
	Fault *amFault
}

type amFault struct {
	Class string // bound length unknown-key missing-required null-required wrong-type
	Path  []string
}

func (d amDoc) JSON() []byte {
	var buf bytes.Buffer
	enc := json.NewEncoder(&buf)
	enc.SetEscapeHTML(false)
	_ = enc.Encode(d.Val)
	return bytes.TrimSpace(buf.Bytes())
}

type docGen struct {
	s   *amSchema
	rng *RNG
}

func intRange(width string) (lo, hi int64) {
	switch width {
	case "int8":
		return -128, 127
	case "int16":
		return -32768, 32767
	case "int32":
		return -2147483648, 2147483647
	case "uint8":
		return 0, 255
	case "uint16":
		return 0, 65535
	case "uint32":
		return 0, 4294967295
	case "uint64":
		return 0, 9007199254740991
	}
	return -9007199254740991, 9007199254740991
}

func runes(n int) string {
	alphabet := []rune("aé𝄞zQ日_-")
	out := make([]rune, n)
	for i := range out {
		out[i] = alphabet[i%len(alphabet)]
	}
	return string(out)
}

// values returns a small list of distinct valid JSON values for t (boundary values first).
func (g *docGen) values(t *amType, depth int) []any {
	var vs []any
	switch t.K {
	case "bool":
		vs = []any{true, false}
	case "string":
		lo, hi := 0, 6
		if t.MinLen >= 0 {
			lo = t.MinLen
		}
		if t.MaxLen >= 0 {
			hi = t.MaxLen
		}
		if hi < lo {
			hi = lo
		}
		vs = []any{runes(lo), runes(hi)}
		if lo < hi {
			vs = append(vs, runes((lo+hi)/2))
		}
		if lo == 0 && t.MinLen < 0 {
			vs = append(vs, "plain text")
		}
	case "bytes":
		vs = []any{"aGVsbG8=", ""}
	case "datetime":
		vs = []any{"2023-04-05T06:07:08Z", "2021-12-31T23:59:59+05:30"}
	case "any":
		vs = []any{"text", num(7), true, map[string]any{"k": num(1)}, []any{num(1), "a"}}
	case "int":
		wlo, whi := intRange(t.Width)
		lo, hi := wlo, whi
		if t.Lo != nil {
			lo = int64(t.Lo.V)
			if t.Lo.Excl {
				lo++
			}
		}
		if t.Hi != nil {
			hi = int64(t.Hi.V)
			if t.Hi.Excl {
				hi--
			}
		}
		if lo < wlo {
			lo = wlo
		}
		if hi > whi {
			hi = whi
		}
		vs = []any{num(lo), num(hi)}
		mid := lo/2 + hi/2
		if mid != lo && mid != hi {
			vs = append(vs, num(mid))
		}
		if lo <= 0 && hi >= 0 && lo != 0 && hi != 0 {
			vs = append(vs, num(0))
		}
	case "float":
		lo, hi := -1000.5, 1000.25
		if t.Lo != nil {
			lo = t.Lo.V
			if t.Lo.Excl {
				lo += 0.25
			}
		}
		if t.Hi != nil {
			hi = t.Hi.V
			if t.Hi.Excl {
				hi -= 0.25
			}
		}
		vs = []any{num(fmtFloat(lo)), num(fmtFloat(hi)), num(fmtFloat(math.Floor((lo+hi)/2) + 0.5))}
		if t.Lo == nil && t.Hi == nil {
			vs = append(vs, num("3"), num("0"))
		}
	case "enum":
		for _, v := range t.EnumS {
			vs = append(vs, v)
		}
		for _, v := range t.EnumI {
			vs = append(vs, num(v))
		}
	case "const":
		switch c := t.Const.(type) {
		case string:
			vs = []any{c}
		case bool:
			vs = []any{c}
		default:
			vs = []any{num(c)}
		}
	case "array":
		if depth < -1 {
			return []any{[]any{}}
		}
		ev := g.values(t.Elem, depth-1)
		vs = []any{[]any{}}
		if len(ev) > 0 {
			vs = append(vs, []any{ev[0]})
			all := append([]any(nil), ev...)
			if len(all) > 3 {
				all = all[:3]
			}
			vs = append(vs, all)
		}
	case "map":
		if depth < -1 {
			return []any{map[string]any{}}
		}
		ev := g.values(t.Elem, depth-1)
		vs = []any{map[string]any{}}
		if len(ev) > 0 {
			vs = append(vs, map[string]any{"k1": ev[0]})
			m := map[string]any{}
			for i, e := range ev {
				if i >= 3 {
					break
				}
				m[fmt.Sprintf("key%d", i)] = e
			}
			vs = append(vs, m)
		}
	case "ref":
		o := g.s.obj(t.Ref)
		if o == nil {
			return nil
		}
		vs = g.values(o.T, depth-1)
	case "struct":
		vs = g.structValues(t, depth)
	case "union":
		for _, b := range t.Branches {
			bv := g.values(b, depth-1)
			if len(bv) > 0 {
				vs = append(vs, bv[0])
			}
			if len(bv) > 1 && t.Disc == "" {
				vs = append(vs, bv[1])
			}
		}
	}
	if t.Nullable {
		// null right after the first value, so that it survives every truncation of the list
		if len(vs) > 0 {
			vs = append([]any{vs[0], nil}, vs[1:]...)
		} else {
			vs = []any{nil}
		}
	}
	return vs
}

func fmtFloat(f float64) string {
	s := fmt.Sprintf("%v", f)
	return s
}

// structValues: full document, minimal document, and one-field-varied documents.
func (g *docGen) structValues(t *amType, depth int) []any {
	if depth < -1 {
		// recursion floor: required fields only, first value; optional omitted
		return []any{g.structDoc(t, depth, nil, true)}
	}
	full := g.structDoc(t, depth, nil, false)
	out := []any{full, g.structDoc(t, depth, nil, true)}
	// a rich document: every field holds its last (largest) variant
	rich := map[int]any{}
	for fi, f := range t.Fields {
		alts := g.values(f.T, depth-1)
		if len(alts) > 0 {
			v := alts[len(alts)-1]
			if v == nil && len(alts) > 1 {
				v = alts[len(alts)-2]
			}
			rich[fi] = wrapAlt{v}
		}
	}
	out = append(out, g.structDoc(t, depth, rich, false))
	for fi, f := range t.Fields {
		alts := g.values(f.T, depth-1)
		for ai := 1; ai < len(alts) && ai < 4; ai++ {
			out = append(out, g.structDoc(t, depth, map[int]any{fi: wrapAlt{alts[ai]}}, false))
		}
	}
	return out
}

type wrapAlt struct{ v any }

func (g *docGen) structDoc(t *amType, depth int, override map[int]any, minimal bool) any {
	m := map[string]any{}
	for fi, f := range t.Fields {
		if ov, ok := override[fi]; ok {
			m[f.Name] = ov.(wrapAlt).v
			continue
		}
		if !f.Required && (minimal || depth < 0) {
			continue
		}
		vals := g.values(f.T, depth-1)
		if len(vals) == 0 {
			if f.Required {
				m[f.Name] = nil
			}
			continue
		}
		m[f.Name] = vals[0]
	}
	return m
}

// validDocs returns up to n valid documents for object o.
func (g *docGen) validDocs(o *amObject, n int) []amDoc {
	vals := g.values(o.T, 2)
	seen := map[string]bool{}
	var docs []amDoc
	for i, v := range vals {
		d := amDoc{Obj: o.Name, Val: v, Label: fmt.Sprintf("valid#%d", i)}
		k := string(d.JSON())
		if seen[k] {
			continue
		}
		seen[k] = true
		docs = append(docs, d)
	}
	if len(docs) > n && len(docs) > 3 {
		// keep the first three (full, minimal, rich) and a seeded sample of the rest
		rest := docs[3:]
		shuffle(g.rng, rest)
		// documents holding an explicit null first (rarely reached otherwise), then the seeded sample
		sort.SliceStable(rest, func(i, j int) bool {
			return bytes.Contains(rest[i].JSON(), []byte("null")) && !bytes.Contains(rest[j].JSON(), []byte("null"))
		})
		docs = append(docs[:3], rest[:max(0, n-3)]...)
	}
	return docs
}

// --- sites & faults ----------------------------------------------------------------------

type docSite struct {
	path     []string
	t        *amType
	val      any
	required bool
	inStruct *amType // the struct type holding this field (nil for elements)
}

func (g *docGen) walk(t *amType, val any, path []string, cb func(site docSite)) {
	if val == nil {
		return
	}
	rt := t
	if t.K == "ref" {
		o := g.s.obj(t.Ref)
		if o == nil {
			return
		}
		rt = o.T
		if rt.K == "ref" {
			g.walk(rt, val, path, cb)
			return
		}
	}
	switch rt.K {
	case "struct":
		m, ok := val.(map[string]any)
		if !ok {
			return
		}
		for _, f := range rt.Fields {
			v, present := m[f.Name]
			if !present {
				continue
			}
			p := append(append([]string(nil), path...), f.Name)
			cb(docSite{path: p, t: f.T, val: v, required: f.Required, inStruct: rt})
			g.walk(f.T, v, p, cb)
		}
	case "array":
		l, ok := val.([]any)
		if !ok {
			return
		}
		for i, e := range l {
			p := append(append([]string(nil), path...), fmt.Sprintf("[%d]", i))
			cb(docSite{path: p, t: rt.Elem, val: e})
			g.walk(rt.Elem, e, p, cb)
		}
	case "map":
		m, ok := val.(map[string]any)
		if !ok {
			return
		}
		for _, k := range sortedKeys(m) {
			p := append(append([]string(nil), path...), "{"+k+"}")
			cb(docSite{path: p, t: rt.Elem, val: m[k]})
			g.walk(rt.Elem, m[k], p, cb)
		}
	case "union":
		if rt.Disc != "" {
			m, ok := val.(map[string]any)
			if !ok {
				return
			}
			for _, b := range rt.Branches {
				o := g.s.obj(b.Ref)
				if o == nil {
					continue
				}
				for _, f := range o.T.Fields {
					if f.Name == rt.Disc && f.T.K == "const" && m[rt.Disc] == f.T.Const {
						g.walk(b, val, path, cb)
						return
					}
				}
			}
		}
	}
}

func deepCopyJSON(v any) any {
	switch x := v.(type) {
	case map[string]any:
		m := make(map[string]any, len(x))
		for k, e := range x {
			m[k] = deepCopyJSON(e)
		}
		return m
	case []any:
		l := make([]any, len(x))
		for i, e := range x {
			l[i] = deepCopyJSON(e)
		}
		return l
	}
	return v
}

// mutateAt applies f to the container holding the last path step.
func mutateAt(root any, path []string, f func(container any, key string)) {
	cur := root
	for i, step := range path {
		last := i == len(path)-1
		if last {
			f(cur, step)
			return
		}
		cur = stepInto(cur, step)
		if cur == nil {
			return
		}
	}
}

func stepInto(cur any, step string) any {
	switch {
	case strings.HasPrefix(step, "["):
		var idx int
		fmt.Sscanf(step, "[%d]", &idx)
		if l, ok := cur.([]any); ok && idx < len(l) {
			return l[idx]
		}
	case strings.HasPrefix(step, "{"):
		if m, ok := cur.(map[string]any); ok {
			return m[step[1:len(step)-1]]
		}
	default:
		if m, ok := cur.(map[string]any); ok {
			return m[step]
		}
	}
	return nil
}

func setIn(container any, key string, v any) {
	switch {
	case strings.HasPrefix(key, "["):
		var idx int
		fmt.Sscanf(key, "[%d]", &idx)
		if l, ok := container.([]any); ok && idx < len(l) {
			l[idx] = v
		}
	case strings.HasPrefix(key, "{"):
		if m, ok := container.(map[string]any); ok {
			m[key[1:len(key)-1]] = v
		}
	default:
		if m, ok := container.(map[string]any); ok {
			m[key] = v
		}
	}
}

// faultDocs derives single-fault documents from a valid base document of struct object o.
func (g *docGen) faultDocs(o *amObject, base amDoc, limit int) []amDoc {
	var out []amDoc
	add := func(class string, path []string, mut func(root any)) {
		root := deepCopyJSON(base.Val)
		mut(root)
		out = append(out, amDoc{Obj: o.Name, Val: root, Label: class + "@" + strings.Join(path, "."), Fault: &amFault{Class: class, Path: path}})
	}
	// unknown key at root and at every nested struct
	add("unknown-key", nil, func(root any) {
		if m, ok := root.(map[string]any); ok {
			m["zzUnknown"] = num(1)
		}
	})
	g.walk(o.T, base.Val, nil, func(s docSite) {
		site := s
		rt := g.s.resolve(site.t)
		if rt == nil {
			return
		}
		set := func(class string, v any) {
			add(class, site.path, func(root any) {
				mutateAt(root, site.path, func(c any, k string) { setIn(c, k, v) })
			})
		}
		switch rt.K {
		case "int", "float":
			if rt.Lo != nil {
				v := rt.Lo.V - 1
				if rt.Lo.Excl {
					v = rt.Lo.V
				}
				if rt.K == "int" {
					set("bound", num(int64(v)))
				} else {
					set("bound", num(fmtFloat(v)))
				}
			}
			if rt.Hi != nil {
				v := rt.Hi.V + 1
				if rt.Hi.Excl {
					v = rt.Hi.V
				}
				if rt.K == "int" {
					set("bound", num(int64(v)))
				} else {
					set("bound", num(fmtFloat(v)))
				}
			}
			set("wrong-type", "not-a-number")
		case "string":
			if rt.MinLen > 0 {
				set("length", runes(rt.MinLen-1))
			}
			if rt.MaxLen >= 0 {
				set("length", runes(rt.MaxLen+1))
			}
			set("wrong-type", num(42))
		case "bool":
			set("wrong-type", "yes")
		case "array":
			set("wrong-type", map[string]any{"a": num(1)})
		case "struct":
			if site.val != nil {
				add("unknown-key", site.path, func(root any) {
					mutateAt(root, site.path, func(c any, k string) {
						if m, ok := stepInto(c, k).(map[string]any); ok {
							m["zzUnknown"] = num(1)
						}
					})
				})
				set("wrong-type", "not-an-object")
			}
		}
		if site.inStruct != nil && site.required {
			add("missing-required", site.path, func(root any) {
				mutateAt(root, site.path, func(c any, k string) {
					if m, ok := c.(map[string]any); ok {
						delete(m, k)
					}
				})
			})
			if !site.t.Nullable && rt.K != "any" {
				set("null-required", nil)
			}
		}
	})
	if len(out) > limit {
		first := out[0]
		rest := out[1:]
		shuffle(g.rng, rest)
		out = append([]amDoc{first}, rest[:limit-1]...)
	}
	return out
}

// --- JSON comparison ---------------------------------------------------------------------

type jsonCmpOpts struct {
	NullEqualsAbsent  bool // an object member holding null ≡ absent member
	NilEqualsEmpty    bool // null ≡ [] ≡ {} for collections
	AbsentEqualsEmpty bool // an absent member ≡ a member holding an empty (or null) collection
}

func parseJSONNum(raw []byte) (any, error) {
	dec := json.NewDecoder(bytes.NewReader(raw))
	dec.UseNumber()
	var v any
	if err := dec.Decode(&v); err != nil {
		return nil, err
	}
	return v, nil
}

// jsonDiff returns "" when a and b are equal under opts, else the first differing path.
func jsonDiff(a, b any, opts jsonCmpOpts, path string) string {
	if opts.NilEqualsEmpty {
		if isEmptyColl(a) && isEmptyColl(b) {
			return ""
		}
	}
	switch x := a.(type) {
	case nil:
		if b == nil {
			return ""
		}
		return path + ": null vs " + short(b)
	case bool:
		if y, ok := b.(bool); ok && x == y {
			return ""
		}
	case string:
		if y, ok := b.(string); ok && x == y {
			return ""
		}
	case json.Number:
		if y, ok := b.(json.Number); ok {
			ra, ok1 := new(big.Rat).SetString(string(x))
			rb, ok2 := new(big.Rat).SetString(string(y))
			if ok1 && ok2 && ra.Cmp(rb) == 0 {
				return ""
			}
		}
	case []any:
		y, ok := b.([]any)
		if !ok {
			break
		}
		if len(x) != len(y) {
			return fmt.Sprintf("%s: array length %d vs %d", path, len(x), len(y))
		}
		for i := range x {
			if d := jsonDiff(x[i], y[i], opts, fmt.Sprintf("%s[%d]", path, i)); d != "" {
				return d
			}
		}
		return ""
	case map[string]any:
		y, ok := b.(map[string]any)
		if !ok {
			break
		}
		keys := map[string]bool{}
		for k := range x {
			keys[k] = true
		}
		for k := range y {
			keys[k] = true
		}
		ks := make([]string, 0, len(keys))
		for k := range keys {
			ks = append(ks, k)
		}
		sort.Strings(ks)
		for _, k := range ks {
			xv, xok := x[k]
			yv, yok := y[k]
			if opts.NullEqualsAbsent {
				if (!xok && yv == nil) || (!yok && xv == nil) {
					continue
				}
			}
			if opts.AbsentEqualsEmpty {
				if (!xok && isEmptyColl(yv)) || (!yok && isEmptyColl(xv)) {
					continue
				}
			}
			if !xok {
				return fmt.Sprintf("%s.%s: absent vs %s", path, k, short(yv))
			}
			if !yok {
				return fmt.Sprintf("%s.%s: %s vs absent", path, k, short(xv))
			}
			if d := jsonDiff(xv, yv, opts, path+"."+k); d != "" {
				return d
			}
		}
		return ""
	}
	return fmt.Sprintf("%s: %s vs %s", path, short(a), short(b))
}

func isEmptyColl(v any) bool {
	switch x := v.(type) {
	case nil:
		return true
	case []any:
		return len(x) == 0
	case map[string]any:
		return len(x) == 0
	}
	return false
}

func short(v any) string {
	b, _ := json.Marshal(v)
	if len(b) > 60 {
		return string(b[:60]) + "…"
	}
	return string(b)
}

// leafVariants derives documents that differ from base in exactly one place (a leaf value at any
// depth, one map key, one collection emptied), each still generated from the AM's value sets.
func (g *docGen) leafVariants(o *amObject, base amDoc, limit int) []amDoc {
	var out []amDoc
	add := func(label string, path []string, mut func(root any)) {
		root := deepCopyJSON(base.Val)
		mut(root)
		d := amDoc{Obj: o.Name, Val: root, Label: label + "@" + strings.Join(path, ".")}
		if string(d.JSON()) != string(base.JSON()) {
			out = append(out, d)
		}
	}
	g.walk(o.T, base.Val, nil, func(s docSite) {
		site := s
		rt := g.s.resolve(site.t)
		if rt == nil {
			return
		}
		cur, _ := json.Marshal(site.val)
		switch rt.K {
		case "struct", "union":
			// handled through their leaves
		default:
			for _, alt := range g.values(site.t, 1) {
				ab, _ := json.Marshal(alt)
				if string(ab) == string(cur) {
					continue
				}
				a := alt
				add("leaf:"+rt.K, site.path, func(root any) {
					mutateAt(root, site.path, func(c any, k string) { setIn(c, k, a) })
				})
				break
			}
		}
		if rt.K == "map" {
			if m, ok := site.val.(map[string]any); ok && len(m) > 0 {
				add("map-key", site.path, func(root any) {
					mutateAt(root, site.path, func(c any, k string) {
						if mm, ok := stepInto(c, k).(map[string]any); ok {
							for _, key := range sortedKeys(mm) {
								mm[key+"X"] = mm[key]
								delete(mm, key)
								break
							}
						}
					})
				})
			}
		}
	})
	if len(out) > limit {
		// stratified by top-level field, so that every field contributes variants
		shuffle(g.rng, out)
		groups := map[string][]amDoc{}
		var order []string
		for _, d := range out {
			top := d.Label
			if i := strings.Index(top, "@"); i >= 0 {
				top = strings.SplitN(top[i+1:], ".", 2)[0]
			}
			if _, ok := groups[top]; !ok {
				order = append(order, top)
			}
			groups[top] = append(groups[top], d)
		}
		var picked []amDoc
		for round := 0; len(picked) < limit; round++ {
			progress := false
			for _, gname := range order {
				if round < len(groups[gname]) && len(picked) < limit {
					picked = append(picked, groups[gname][round])
					progress = true
				}
			}
			if !progress {
				break
			}
		}
		out = picked
	}
	return out
}
