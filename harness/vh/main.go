package main

import (
	"fmt"
	"os"
	"path/filepath"
)

type checkFn func(r *Run)

var checks = map[string]checkFn{}

func register(id string, f checkFn) { checks[id] = f }

func main() {
	if len(os.Args) < 2 {
		fmt.Fprintln(os.Stderr, "usage: vh <Cxx> <quick|thorough> [--replay file]")
		os.Exit(2)
	}
	prop := os.Args[1]
	tier := "quick"
	if len(os.Args) > 2 && os.Args[2] != "" {
		tier = os.Args[2]
	}
	if prop == "warmup" {
		fmt.Println("warm")
		return
	}
	// internal sub-commands (child processes of a check)
	if sub, ok := subcommands[prop]; ok {
		sub(os.Args[2:])
		return
	}
	f, ok := checks[prop]
	if !ok {
		fmt.Fprintf(os.Stderr, "unknown property %q\n", prop)
		os.Exit(2)
	}
	r := newRun(prop, tier)
	for i := 3; i < len(os.Args); i++ {
		if os.Args[i] == "--replay" && i+1 < len(os.Args) {
			r.replayOnly = os.Args[i+1]
		}
	}
	if r.replayOnly == "" {
		_ = os.RemoveAll(filepath.Join(verifDir(), "replays", prop))
	}
	f(r)
	r.Finish()
}

var subcommands = map[string]func(args []string){}
