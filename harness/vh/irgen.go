package main

import (
	"fmt"
	"strings"

	"github.com/grafana/cog/internal/ast"
)

// irgen — random *direct* ast.Schemas, well-formed by construction:
//   - every reference (type ref, constant ref, discriminator mapping, entry point) resolves;
//   - alias objects (object whose type is a ref) only point to objects declared earlier → no alias cycles;
//   - enums are non-empty, members share one scalar type, names unique;
//   - defaults have the dynamic Go types the parsers produce (bool, int64, float64, string, []any, map[string]any).
// Struct fields may reference anything (self- and mutual recursion included).

type irOpts struct {
	Pkgs             int
	MaxObjs          int
	Depth            int
	Intersections    bool
	Slots            bool // composable slots
	ConstRefs        bool
	Unions           bool
	AnonStructs      bool
	AnonEnums        bool
	Defaults         bool
	Hints            bool
	CaseVariants     bool // object names that differ only in letter case across packages
	NumericEnumNames bool
	// tagged classes (kept out of the main corpora; see DESIGN §3.10)
	NestedUnions bool // a union somewhere below a union branch
	AliasObjects bool // objects whose type is a reference
	UniqueNames  bool // object names unique across packages
	IntKeyMaps   bool // some maps are keyed by integers
	inUnion      int
}

func defaultIROpts() irOpts {
	return irOpts{Pkgs: 2, MaxObjs: 7, Depth: 3, Intersections: true, NestedUnions: true, AliasObjects: true, ConstRefs: true, Unions: true, AnonStructs: true, AnonEnums: true, Defaults: true, Hints: true}
}

type plannedObj struct {
	pkg, name string
	kind      string // struct enumS enumI scalar const alias array map union unionRefs intersection
	famKind   string // for discriminated families: discriminator value
	idx       int
}

type irGen struct {
	rng   *RNG
	o     irOpts
	objs  []plannedObj
	byPkg map[string][]int
	// enum member values per object (for constant refs and defaults)
	enumVals map[string][]ast.EnumValue
	tags     map[string]int
	// unguarded > 0 while generating a position from which a reference is reached without passing
	// through a struct/array/map (object-level unions and aliases): such references must target
	// earlier objects, otherwise `A = A | null` style alias cycles appear.
	unguarded int
}

var objNames = []string{"Alpha", "Bravo", "Charlie", "Delta", "Echo", "Foxtrot", "Golf", "Hotel", "India", "Juliet", "Kilo", "Lima", "Mike", "November", "Oscar", "Papa"}
var fieldNames = []string{"name", "count", "ratio", "enabled", "items", "labels", "child", "mode", "value", "extra", "kind2", "limit", "when", "data", "ref", "opts"}
var pkgNames = []string{"pkga", "pkgb", "pkgc", "pkgd"}

func (g *irGen) tag(t string) { g.tags[t]++ }

func genSchemas(rng *RNG, o irOpts) (ast.Schemas, map[string]int) {
	g := &irGen{rng: rng, o: o, byPkg: map[string][]int{}, enumVals: map[string][]ast.EnumValue{}, tags: map[string]int{}}
	npk := rng.Range(1, max(1, o.Pkgs))
	// plan
	for p := 0; p < npk; p++ {
		pkg := pkgNames[p]
		n := rng.Range(2, max(2, o.MaxObjs))
		names := append([]string(nil), objNames...)
		shuffle(rng, names)
		if o.UniqueNames {
			// disjoint slices of the name pool per package
			per := len(names) / max(1, npk)
			sorted := append([]string(nil), objNames...)
			names = append([]string(nil), sorted[p*per:(p+1)*per]...)
			shuffle(rng, names)
		}
		for i := 0; i < n && i < len(names); i++ {
			kind := g.pickObjKind(i)
			name := names[i]
			if o.CaseVariants && p > 0 && rng.Chance(0.3) && len(g.byPkg[pkgNames[0]]) > 0 {
				// same name (possibly different case) as an object of the first package
				other := g.objs[pick(rng, g.byPkg[pkgNames[0]])].name
				if rng.Bool() {
					other = lowerFirst(other)
				}
				dup := false
				for _, j := range g.byPkg[pkg] {
					if g.objs[j].name == other {
						dup = true
					}
				}
				if !dup {
					name = other
				}
			}
			po := plannedObj{pkg: pkg, name: name, kind: kind, idx: len(g.objs)}
			g.byPkg[pkg] = append(g.byPkg[pkg], len(g.objs))
			g.objs = append(g.objs, po)
		}
		// a discriminated family per package (sometimes)
		if o.Unions && rng.Chance(0.6) {
			fam := []string{"Circle", "Square", "Tri"}
			if rng.Chance(0.3) {
				// object names that are not already UpperCamelCase
				fam = []string{"circle_shape", "squareShape", "tri_Angle"}
			}
			if o.UniqueNames {
				for fi := range fam {
					fam[fi] = fam[fi] + strings.ToUpper(pkg[len(pkg)-1:])
				}
			}
			k := rng.Range(2, 3)
			for i := 0; i < k; i++ {
				po := plannedObj{pkg: pkg, name: fam[i], kind: "famStruct", famKind: lowerFirst(fam[i]), idx: len(g.objs)}
				g.byPkg[pkg] = append(g.byPkg[pkg], len(g.objs))
				g.objs = append(g.objs, po)
			}
			shapeName := "Shape"
			if o.UniqueNames {
				shapeName += strings.ToUpper(pkg[len(pkg)-1:])
			}
			po := plannedObj{pkg: pkg, name: shapeName, kind: "unionRefs", idx: len(g.objs)}
			g.byPkg[pkg] = append(g.byPkg[pkg], len(g.objs))
			g.objs = append(g.objs, po)
		}
	}
	// enum member values must be known before types are generated (constant refs)
	for _, po := range g.objs {
		if po.kind == "enumS" || po.kind == "enumI" {
			g.enumVals[po.pkg+"."+po.name] = g.enumValues(po.kind == "enumI")
		}
	}
	schemas := ast.Schemas{}
	for p := 0; p < npk; p++ {
		pkg := pkgNames[p]
		schema := ast.NewSchema(pkg, ast.SchemaMeta{})
		if rng.Chance(0.3) {
			schema.Metadata.Identifier = pkg + "-id"
		}
		for _, i := range g.byPkg[pkg] {
			po := g.objs[i]
			obj := ast.NewObject(pkg, po.name, g.objectType(po))
			if rng.Chance(0.4) {
				obj.Comments = []string{"comment on " + po.name, "second line"}[:rng.Range(1, 2)]
			}
			if rng.Chance(0.15) {
				obj.PassesTrail = []string{"irgen"}
			}
			schema.AddObject(obj)
		}
		if rng.Chance(0.4) {
			// entry point: a struct object of this package
			for _, i := range g.byPkg[pkg] {
				if g.objs[i].kind == "struct" {
					schema.EntryPoint = g.objs[i].name
					schema.EntryPointType = ast.NewRef(pkg, g.objs[i].name)
					g.tag("entrypoint")
					break
				}
			}
		}
		schemas = append(schemas, schema)
	}
	return schemas, g.tags
}

func lowerFirst(s string) string {
	if s == "" {
		return s
	}
	b := []byte(s)
	if b[0] >= 'A' && b[0] <= 'Z' {
		b[0] += 32
	}
	return string(b)
}

func (g *irGen) pickObjKind(i int) string {
	if i == 0 {
		return "struct"
	}
	r := g.rng.Intn(100)
	switch {
	case r < 40:
		return "struct"
	case r < 50:
		return "enumS"
	case r < 56:
		return "enumI"
	case r < 62:
		return "scalar"
	case r < 68:
		return "const"
	case r < 75:
		if !g.o.AliasObjects {
			return "struct"
		}
		return "alias"
	case r < 81:
		return "array"
	case r < 86:
		return "map"
	case r < 93:
		if g.o.Unions {
			return "union"
		}
		return "struct"
	default:
		if g.o.Intersections {
			return "intersection"
		}
		return "struct"
	}
}

func (g *irGen) enumValues(ints bool) []ast.EnumValue {
	n := g.rng.Range(1, 4)
	var vals []ast.EnumValue
	words := []string{"red", "green", "blue", "dark-mode", "x_y", "UP", "down", ""}
	shuffle(g.rng, words)
	for i := 0; i < n; i++ {
		if ints {
			name := fmt.Sprintf("Level%d", i)
			if g.o.NumericEnumNames && g.rng.Chance(0.5) {
				name = fmt.Sprintf("%d", i-1)
			}
			vals = append(vals, ast.EnumValue{Type: ast.NewScalar(ast.KindInt64), Name: name, Value: int64(i*10 - 10)})
		} else {
			w := words[i]
			name := w
			if w == "" {
				name = "None"
			}
			if g.o.NumericEnumNames && g.rng.Chance(0.3) {
				w = fmt.Sprintf("%d", i)
				name = w
			}
			vals = append(vals, ast.EnumValue{Type: ast.String(), Name: name, Value: w})
		}
	}
	return vals
}

func (g *irGen) objectType(po plannedObj) ast.Type {
	switch po.kind {
	case "struct":
		g.tag("obj:struct")
		return g.structType(g.o.Depth, po)
	case "famStruct":
		g.tag("obj:family-struct")
		fields := []ast.StructField{
			ast.NewStructField("type", ast.String(ast.Value(po.famKind)), ast.Required()),
		}
		n := g.rng.Range(1, 3)
		for i := 0; i < n; i++ {
			fields = append(fields, g.field(fmt.Sprintf("%s%d", po.famKind, i), 1))
		}
		return ast.NewStruct(fields...)
	case "unionRefs":
		g.tag("obj:union-of-refs")
		var branches []ast.Type
		for _, i := range g.byPkg[po.pkg] {
			if g.objs[i].kind == "famStruct" {
				branches = append(branches, ast.NewRef(po.pkg, g.objs[i].name))
			}
		}
		t := ast.NewDisjunction(branches)
		if g.rng.Chance(0.5) {
			t.Disjunction.Discriminator = "type"
			for _, b := range branches {
				t.Disjunction.DiscriminatorMapping[lowerFirst(b.Ref.ReferredType)] = b.Ref.ReferredType
			}
			g.tag("union:explicit-mapping")
		}
		return t
	case "enumS", "enumI":
		g.tag("obj:" + po.kind)
		vals := g.enumVals[po.pkg+"."+po.name]
		t := ast.NewEnum(append([]ast.EnumValue(nil), vals...))
		if g.o.Defaults && g.rng.Chance(0.3) {
			t.Default = pick(g.rng, vals).Value
		}
		return t
	case "scalar":
		g.tag("obj:scalar")
		return g.scalar(false)
	case "const":
		g.tag("obj:const")
		if g.rng.Chance(0.7) {
			return ast.String(ast.Value("const-" + po.name))
		}
		return ast.NewScalar(ast.KindInt64, ast.Value(int64(g.rng.Intn(100))))
	case "alias":
		// only to earlier objects: no alias cycles
		var cands []int
		for _, i := range g.byPkg[po.pkg] {
			if i < po.idx && g.objs[i].kind != "unionRefs" {
				cands = append(cands, i)
			}
		}
		if len(cands) == 0 {
			return g.scalar(false)
		}
		g.tag("obj:alias")
		t := g.objs[pick(g.rng, cands)]
		return ast.NewRef(t.pkg, t.name)
	case "array":
		g.tag("obj:array")
		return ast.NewArray(g.typ(g.o.Depth-1, po, false))
	case "map":
		g.tag("obj:map")
		return ast.NewMap(ast.String(), g.typ(g.o.Depth-1, po, false))
	case "union":
		g.tag("obj:union")
		g.unguarded++
		defer func() { g.unguarded-- }()
		return g.union(g.o.Depth-1, po)
	case "intersection":
		g.tag("obj:intersection")
		var branches []ast.Type
		for _, i := range g.byPkg[po.pkg] {
			if g.objs[i].kind == "struct" && i != po.idx && len(branches) < 2 {
				branches = append(branches, ast.NewRef(po.pkg, g.objs[i].name))
			}
		}
		branches = append(branches, ast.NewStruct(g.field("own", 1)))
		return ast.NewIntersection(branches)
	}
	return ast.String()
}

func (g *irGen) structType(depth int, po plannedObj) ast.Type {
	n := g.rng.Range(1, 5)
	names := append([]string(nil), fieldNames...)
	shuffle(g.rng, names)
	var fields []ast.StructField
	for i := 0; i < n; i++ {
		fields = append(fields, g.fieldOf(names[i], depth, po))
	}
	t := ast.NewStruct(fields...)
	if g.o.Hints && g.rng.Chance(0.1) {
		t.Hints[ast.HintSkipVariantPluginRegistration] = true
	}
	return t
}

func (g *irGen) field(name string, depth int) ast.StructField {
	return g.fieldOf(name, depth, plannedObj{pkg: "", idx: -1})
}

func (g *irGen) fieldOf(name string, depth int, po plannedObj) ast.StructField {
	t := g.typ(depth-1, po, true)
	f := ast.NewStructField(name, t)
	if g.rng.Chance(0.6) {
		f.Required = true
	} else if g.rng.Chance(0.5) {
		f.Type.Nullable = true
		g.tag("field:optional+nullable")
	} else {
		g.tag("field:optional")
	}
	if f.Required && g.rng.Chance(0.15) {
		f.Type.Nullable = true
		g.tag("field:required+nullable")
	}
	if g.rng.Chance(0.3) {
		f.Comments = []string{"field " + name}
	}
	return f
}

func (g *irGen) scalar(allowConst bool) ast.Type {
	r := g.rng.Intn(100)
	var t ast.Type
	switch {
	case r < 25:
		t = ast.String()
		if g.rng.Chance(0.3) {
			t.Scalar.Constraints = []ast.TypeConstraint{{Op: ast.MinLengthOp, Args: []any{int64(1)}}, {Op: ast.MaxLengthOp, Args: []any{int64(20)}}}[:g.rng.Range(1, 2)]
			g.tag("scalar:string+len")
		} else if g.o.Hints && g.rng.Chance(0.15) {
			t.Hints[ast.HintStringFormatDateTime] = true
			g.tag("scalar:datetime")
		}
		if g.o.Defaults && g.rng.Chance(0.25) {
			t.Default = "dflt"
		}
	case r < 35:
		t = ast.Bool()
		if g.o.Defaults && g.rng.Chance(0.4) {
			t.Default = g.rng.Bool()
		}
	case r < 65:
		k := pick(g.rng, []ast.ScalarKind{ast.KindInt8, ast.KindInt16, ast.KindInt32, ast.KindInt64, ast.KindUint8, ast.KindUint16, ast.KindUint32, ast.KindUint64})
		t = ast.NewScalar(k)
		if g.rng.Chance(0.35) {
			t.Scalar.Constraints = []ast.TypeConstraint{{Op: ast.GreaterThanEqualOp, Args: []any{int64(1)}}, {Op: ast.LessThanOp, Args: []any{int64(100)}}}[:g.rng.Range(1, 2)]
			g.tag("scalar:int+bounds")
		}
		if g.o.Defaults && g.rng.Chance(0.3) {
			t.Default = int64(g.rng.Range(1, 50))
		}
	case r < 80:
		t = ast.NewScalar(pick(g.rng, []ast.ScalarKind{ast.KindFloat32, ast.KindFloat64}))
		if g.rng.Chance(0.3) {
			t.Scalar.Constraints = []ast.TypeConstraint{{Op: ast.GreaterThanOp, Args: []any{float64(0)}}, {Op: ast.LessThanEqualOp, Args: []any{float64(1000)}}}[:g.rng.Range(1, 2)]
		}
		if g.o.Defaults && g.rng.Chance(0.3) {
			t.Default = float64(g.rng.Intn(40)) / 4
		}
	case r < 88:
		t = ast.Any()
		g.tag("scalar:any")
	case r < 93:
		t = ast.Bytes()
		g.tag("scalar:bytes")
	default:
		if allowConst {
			t = ast.String(ast.Value("fixed"))
			g.tag("scalar:constant")
		} else {
			t = ast.String()
		}
	}
	return t
}

// typ generates a type usable inside a struct field / collection. inField: may be a constant.
func (g *irGen) typ(depth int, po plannedObj, inField bool) ast.Type {
	if depth <= 0 {
		if g.rng.Chance(0.35) {
			if t, ok := g.ref(po); ok {
				return t
			}
		}
		return g.scalar(inField)
	}
	r := g.rng.Intn(100)
	switch {
	case r < 30:
		return g.scalar(inField)
	case r < 52:
		if t, ok := g.ref(po); ok {
			return t
		}
		return g.scalar(inField)
	case r < 64:
		g.tag("array")
		saved := g.unguarded
		g.unguarded = 0
		t := ast.NewArray(g.typ(depth-1, po, false))
		g.unguarded = saved
		if g.o.Defaults && t.Array.ValueType.IsScalar() && t.Array.ValueType.Scalar.ScalarKind == ast.KindString && g.rng.Chance(0.3) {
			t.Default = []any{"a", "b"}
			g.tag("default:list")
		}
		return t
	case r < 73:
		g.tag("map")
		saved := g.unguarded
		g.unguarded = 0
		mt := ast.NewMap(ast.String(), g.typ(depth-1, po, false))
		g.unguarded = saved
		if g.o.IntKeyMaps && g.rng.Chance(0.3) {
			mt.Map.IndexType = ast.NewScalar(ast.KindInt64)
			g.tag("map:int-keys")
		}
		return mt
	case r < 81:
		if g.o.AnonStructs {
			g.tag("anon-struct")
			saved := g.unguarded
			g.unguarded = 0
			defer func() { g.unguarded = saved }()
			n := g.rng.Range(1, 3)
			var fields []ast.StructField
			for i := 0; i < n; i++ {
				fields = append(fields, g.fieldOf(fmt.Sprintf("inner%d", i), depth, po))
			}
			t := ast.NewStruct(fields...)
			if g.o.Defaults && g.rng.Chance(0.2) {
				t.Default = map[string]any{"inner0": "x"}
				g.tag("default:struct")
			}
			return t
		}
		return g.scalar(inField)
	case r < 87:
		if g.o.AnonEnums {
			g.tag("anon-enum")
			vals := g.enumValues(g.rng.Chance(0.3))
			t := ast.NewEnum(vals)
			if g.o.Defaults && g.rng.Chance(0.3) {
				t.Default = vals[0].Value
			}
			return t
		}
		return g.scalar(inField)
	case r < 95:
		if g.o.Unions {
			return g.union(depth-1, po)
		}
		return g.scalar(inField)
	default:
		if g.o.ConstRefs {
			if t, ok := g.constRef(po); ok {
				return t
			}
		}
		if g.o.Slots && g.rng.Chance(0.5) {
			g.tag("composable-slot")
			return ast.NewComposableSlot(ast.SchemaVariantDataQuery)
		}
		return g.scalar(inField)
	}
}

func (g *irGen) ref(po plannedObj) (ast.Type, bool) {
	if len(g.objs) == 0 {
		return ast.Type{}, false
	}
	// prefer same package; sometimes cross-package
	var cands []int
	if po.pkg != "" && !g.rng.Chance(0.25) {
		cands = g.byPkg[po.pkg]
	} else {
		for i := range g.objs {
			cands = append(cands, i)
		}
	}
	if len(cands) == 0 {
		return ast.Type{}, false
	}
	if g.unguarded > 0 {
		var earlier []int
		for _, i := range cands {
			if i < po.idx && g.objs[i].kind != "unionRefs" {
				earlier = append(earlier, i)
			}
		}
		cands = earlier
		if len(cands) == 0 {
			return ast.Type{}, false
		}
	}
	t := g.objs[pick(g.rng, cands)]
	if t.kind == "intersection" && g.rng.Chance(0.7) {
		return ast.Type{}, false
	}
	ref := ast.NewRef(t.pkg, t.name)
	if t.pkg != po.pkg {
		g.tag("ref:cross-package")
	}
	if t.idx == po.idx {
		g.tag("ref:self")
	}
	g.tag("ref:" + t.kind)
	if g.o.Defaults && (t.kind == "enumS" || t.kind == "enumI") && g.rng.Chance(0.3) {
		ref.Default = pick(g.rng, g.enumVals[t.pkg+"."+t.name]).Value
		g.tag("default:enum-ref")
	}
	return ref, true
}

func (g *irGen) constRef(po plannedObj) (ast.Type, bool) {
	var cands []plannedObj
	for _, o := range g.objs {
		if o.kind == "enumS" || o.kind == "enumI" {
			cands = append(cands, o)
		}
	}
	if len(cands) == 0 {
		return ast.Type{}, false
	}
	t := pick(g.rng, cands)
	v := pick(g.rng, g.enumVals[t.pkg+"."+t.name])
	g.tag("constant-ref")
	if t.pkg != po.pkg {
		g.tag("constant-ref:cross-package")
	}
	return ast.NewConstantReferenceType(t.pkg, t.name, v.Value), true
}

func (g *irGen) union(depth int, po plannedObj) ast.Type {
	if g.o.inUnion > 0 && !g.o.NestedUnions {
		return g.scalar(false)
	}
	g.o.inUnion++
	defer func() { g.o.inUnion-- }()
	r := g.rng.Intn(100)
	if !g.o.NestedUnions && r >= 82 && r < 92 {
		r = 10 // no explicit nested unions in the main corpus
	}
	switch {
	case r < 35:
		g.tag("union:scalars")
		kinds := []ast.Type{ast.String(), ast.Bool(), ast.NewScalar(ast.KindInt64), ast.NewScalar(ast.KindFloat64)}
		shuffle(g.rng, kinds)
		br := kinds[:g.rng.Range(2, 3)]
		if g.rng.Chance(0.3) {
			br = append(br, ast.NewArray(ast.String()))
		}
		return ast.NewDisjunction(append([]ast.Type(nil), br...))
	case r < 55:
		g.tag("union:T|null")
		inner := g.typ(depth, po, false)
		if g.rng.Bool() {
			return ast.NewDisjunction([]ast.Type{inner, ast.Null()})
		}
		g.tag("union:null|T")
		return ast.NewDisjunction([]ast.Type{ast.Null(), inner})
	case r < 70:
		// refs to family structs of the same package, if any
		var branches []ast.Type
		pkg := po.pkg
		for _, i := range g.byPkg[pkg] {
			if g.objs[i].kind == "famStruct" {
				branches = append(branches, ast.NewRef(pkg, g.objs[i].name))
			}
		}
		if len(branches) >= 2 {
			g.tag("union:refs-inline")
			return ast.NewDisjunction(branches)
		}
		fallthrough
	case r < 82:
		if g.rng.Chance(0.35) {
			// one kind, not all constants: `"auto" | string` (collapses to a plain scalar in Go and Java)
			g.tag("union:constant|same-kind")
			if g.rng.Bool() {
				return ast.NewDisjunction([]ast.Type{ast.String(ast.Value("auto")), ast.String()})
			}
			return ast.NewDisjunction([]ast.Type{ast.NewScalar(ast.KindInt64), ast.NewScalar(ast.KindInt64, ast.Value(int64(0)))})
		}
		g.tag("union:constants")
		return ast.NewDisjunction([]ast.Type{ast.String(ast.Value("on")), ast.String(ast.Value("off")), ast.String(ast.Value("auto"))}[:g.rng.Range(2, 3)])
	case r < 92:
		g.tag("union:nested")
		return ast.NewDisjunction([]ast.Type{ast.String(), ast.NewDisjunction([]ast.Type{ast.Bool(), ast.NewScalar(ast.KindInt64)})})
	default:
		g.tag("union:mixed")
		br := []ast.Type{g.typ(depth, po, false), ast.String()}
		if br[0].IsScalar() && br[0].Scalar.ScalarKind == ast.KindString {
			br[0] = ast.Bool()
		}
		return ast.NewDisjunction(br)
	}
}
